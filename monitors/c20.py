"""C20 - the scripting interface is total and agrees with the engine-side view.

a. totality     libFuzzer target fuzz/fz_script (ASan+UBSan): bytes -> sequences of run_colvarscript_command() calls
                over the command table harvested at run time, well-formed and malformed, interleaved with engine steps
                and run boundaries, fresh proxy+module per input, fixed epilogue (cv reset, known configuration, one
                step) whose events must equal those of a pristine module.  Artifacts are re-run alone and keyed
                fuzz:<sanitizer kind>:<innermost Colvars frame> / fuzz:epilogue_mismatch:<first differing record>.
b. agreement    valid scenarios through esim: after every step the script queries (colvar value / getappliedforce /
                gettotalforce / getgradients / getatomids, bias energy, cv getenergy / getatomappliedforces /
                getatomids / getnumactiveatoms / savetostring / getstepabsolute) must be the numbers of the step event
                and of write_restart_string() of that step, at the printed precision (6 or 15 significant digits).
c. equivalence  cv config vs read_config_string; cv load / loadfromstring vs engine-driven input; colvar addforce
                (+update, communicateforces) vs a linear bias of strength -F*width; bias/colvar delete vs never
                defining the object: the subsequent step events of the two modules must be bitwise equal.
"""
import collections
import hashlib
import json
import os
import re
import shutil
import subprocess
import threading
import time

import common
import corpus
from common import fnum, fl

REPO = os.environ.get("VERIF_REPO", "/repo")

# ---------------------------------------------------------------------------------------------------------------
# a. fuzzing
# ---------------------------------------------------------------------------------------------------------------


def src_frame(err):
    """innermost frame of a sanitizer / libFuzzer stack dump that lies in the Colvars sources: func@file"""
    for line in err.splitlines():
        m = re.search(r"#\d+\s+\S+\s+in\s+(.+?)\s+(\S*/src/([A-Za-z0-9_.]+\.(?:cpp|h)))(?::\d+)*\s*$", line)
        if m and ("/repo/src/" in m.group(2) or m.group(2).startswith(os.path.join(REPO, "src"))):
            fn = m.group(1)
            fn = re.sub(r"\(.*$", "", fn)
            fn = re.sub(r"<.*$", "", fn)
            return "%s@%s" % (fn.split(" ")[-1][:70], m.group(3))
    return "?"


def crash_kind(err, timed_out=False):
    if "FZ_SCRIPT EPILOGUE MISMATCH" in err:
        return "epilogue_mismatch"
    m = re.search(r"runtime error: (.*)", err)
    if m:
        t = m.group(1)
        for pat, name in [(r"null pointer", "null-pointer-use"), (r"signed integer overflow", "signed-integer-overflow"),
                          (r"division by zero", "division-by-zero"),
                          (r"outside the range of representable values", "float-cast-overflow"),
                          (r"out of bounds", "index-out-of-bounds"),
                          (r"not a valid value for type '(const )?bool'", "invalid-bool-load"),
                          (r"misaligned", "misaligned"), (r"shift", "invalid-shift"),
                          (r"not a valid value for type", "invalid-enum"),
                          (r"downcast of address", "invalid-downcast"), (r"member call on address", "invalid-object")]:
            if re.search(pat, t):
                return "ubsan-" + name
        return "ubsan-" + re.sub(r"[^a-z]+", "-", t.lower())[:40].strip("-")
    m = re.search(r"ERROR: AddressSanitizer: ([A-Za-z0-9_-]+)", err)
    if m:
        k = m.group(1)
        if k == "requested":
            k = "allocation-size-too-big"
        return "asan-" + k
    m = re.search(r"ERROR: libFuzzer: ([a-z-]+)", err)
    if m:
        k = m.group(1)
        if k == "deadly":
            ex = re.search(r"terminate called after throwing an instance of '([^']+)'", err)
            return "uncaught-" + ex.group(1) if ex else "abort"
        return "libfuzzer-" + k
    if timed_out:
        return "hang"
    return None


def epilogue_diff(err):
    """label of the first record of the epilogue that differs"""
    m = re.search(r"--- reference ---\n(.*?)--- after this sequence ---\n(.*?)--- end ---", err, re.S)
    if not m:
        return "?"
    a, b = m.group(1).splitlines(), m.group(2).splitlines()
    for x, y in zip(a, b):
        if x != y:
            return "_".join(x.split()[:2])
    return "length"


class Enc:
    """encoder of fz_script inputs (see the header of fuzz/fz_script.cpp)"""

    def __init__(self, dump):
        self.cmds = dump["commands"]
        self.idx = {c["name"]: i for i, c in enumerate(self.cmds)}
        self.values = dump["values"]
        self.vidx = {}
        for i, v in enumerate(self.values):
            self.vidx.setdefault(v, i)

    def val(self, v):
        if v == "LAST":
            return bytes([0xEE])
        if v == "STATE":
            return bytes([0xEF])
        if isinstance(v, int):
            return bytes([v % min(len(self.values), 0xEE)])
        if v in self.vidx and self.vidx[v] < 0xEE:
            return bytes([self.vidx[v]])
        b = v.encode("latin1", "replace")[:255]
        return bytes([0xF0, len(b)]) + b

    def nargs(self, name, nsel):
        c = self.cmds[self.idx[name]]
        nmin, nmax = c["min"], c["max"]
        na = {1: nmax, 2: nmin - 1, 3: nmax + 1, 4: nmax + 3, 5: (nmin + nmax + 1) // 2, 6: 0}.get(nsel & 7, nmin)
        return max(0, na)

    def cmd(self, name, obj=0, nsel=0, vals=()):
        """exactly as many values as the target will read for this (command, nsel); vals are cycled / "1" is the filler"""
        na = self.nargs(name, nsel)
        vals = list(vals)
        use = [(vals[k % len(vals)] if vals else "1") for k in range(na)]
        return bytes([0, self.idx[name], obj, nsel]) + b"".join(self.val(v) for v in use)

    def raw(self, toks):
        toks = list(toks)[:7]
        return bytes([12, len(toks)]) + b"".join(self.val(t) for t in toks)

    step = bytes([10])
    newrun = bytes([11])
    endrun = bytes([13])


def decode_records(data, ncmds_table):
    """split an input into records (same walk as the target; table of (name, nmin, nmax))"""
    recs = []
    i = 0
    n = len(data)

    def byte():
        nonlocal i
        b = data[i] if i < n else 0
        i += 1
        return b

    def value():
        sel = byte()
        if sel >= 0xF0:
            ln = byte()
            for _ in range(ln):
                if i >= n:
                    break
                byte()

    while i < n and len(recs) < 200:
        start = i
        op = byte() & 15
        if op in (10, 14, 15, 11, 13):
            pass
        elif op == 12:
            for _ in range(byte() & 7):
                value()
        else:
            c = ncmds_table[byte() % len(ncmds_table)]
            byte()
            nsel = byte() & 7
            nmin, nmax = c["min"], c["max"]
            na = {1: nmax, 2: nmin - 1, 3: nmax + 1, 4: nmax + 3, 5: (nmin + nmax + 1) // 2, 6: 0}.get(nsel, nmin)
            for _ in range(max(0, na)):
                value()
        recs.append(bytes(data[start:min(i, n)]))
    return recs


TYPED = {   # plausible well-formed arguments per command (values must exist in the target's table or are literals)
    "cv_addenergy": [["0.5"]], "cv_config": [["colvar {\n name w\n distance {\n group1 { atomNumbers 8 }\n group2 { atomNumbers 9 10 }\n }\n}\n"],
                                             ["harmonicWalls {\n name hw\n colvars d\n lowerWalls 1.0\n upperWalls 2.0\n forceConstant 3.0\n}\n"]],
    "cv_configfile": [["mem.conf"], ["missing"]], "cv_frame": [[], ["1"]], "cv_help": [[], ["config"], ["colvar"], ["bias"]],
    "cv_list": [[], ["colvars"], ["biases"]], "cv_load": [["st"], ["st.colvars.state"]], "cv_loadfromstring": [["STATE"], ["LAST"]],
    "cv_molid": [[], ["1"]], "cv_save": [["st"], ["out"]], "cv_targettemperature": [[], ["0.5"]], "cv_timestep": [[], ["2"]],
    "cv_units": [[], ["real"], ["gromacs"]],
    "colvar_addforce": [["0.5"], ["( 0.5 , 0.25 , 0.125 )"]], "colvar_cvcflags": [["1 1"], ["0"]], "colvar_get": [["active"], ["collect_gradient"]],
    "colvar_help": [[], ["value"]], "colvar_modifycvcs": [["\"componentCoeff 2.0\""]], "colvar_set": [["collect_gradient", "1"], ["active", "0"]],
    "bias_bincount": [[], ["1"]], "bias_local_sample_count": [[], ["1"]], "bias_get": [["active"], ["apply_bias"]], "bias_help": [[], ["energy"]],
    "bias_load": [["st"]], "bias_loadfromstring": [["LAST"], ["STATE"]], "bias_save": [["st"]], "bias_set": [["apply_bias", "0"], ["active", "1"]],
}


def make_seeds(enc, rng):
    seeds = []
    S, N, E = enc.step, enc.newrun, enc.endrun
    for c in enc.cmds:
        name = c["name"]
        kind_obj = name.startswith("colvar_") or name.startswith("bias_")
        variants = TYPED.get(name, [[]])
        for obj in ((0, 4) if kind_obj else (0,)):
            for vs in variants:
                nsel = 0 if len(vs) == c["min"] else 1 if len(vs) == c["max"] else 5
                one = enc.cmd(name, obj, nsel, vs)
                seeds.append(one)
                seeds.append(S + one + S + one + S)
        # malformed: one argument missing / surplus / many surplus / object missing, other kind, empty, long
        junk = [rng.randrange(len(enc.values)) for _ in range(6)]
        seeds.append(enc.cmd(name, 0, 2, junk) + S + enc.cmd(name, 0, 3, junk) + enc.cmd(name, 0, 4, junk) + S)
        if kind_obj:
            seeds.append(b"".join(enc.cmd(name, o, 0, junk) for o in (9, 8, 10, 11, 7)) + S)
        # junk argument values with a well-formed count
        for _ in range(2):
            seeds.append(enc.cmd(name, rng.choice([0, 4]), 1, [rng.randrange(len(enc.values)) for _ in range(3)]) + S)
        # a call that fails, then the same command well-formed (what an error path leaves behind)
        if c["max"] > 0:
            for bad in ("\"unterminated", "abc", "", "( 1 , 2", "1e308"):
                for obj in ((0, 4) if kind_obj else (0,)):
                    good = variants[0] if len(variants[0]) >= c["min"] and variants[0] else (variants[-1] if variants[-1] else ["1"])
                    seeds.append(enc.cmd(name, obj, 1, [bad]) + enc.cmd(name, obj, 1 if len(good) == c["max"] else 0, good) + S
                                 + enc.cmd(name, obj, 1 if len(good) == c["max"] else 0, good) + S)
    # round trips and object life cycles
    seeds.append(S + enc.cmd("cv_savetostring") + enc.cmd("cv_loadfromstring", vals=["LAST"]) + S + S)
    seeds.append(S + enc.cmd("cv_save", vals=["st"]) + S + enc.cmd("cv_load", vals=["st"]) + S + enc.cmd("cv_load", vals=["missing"]) + S)
    seeds.append(S + enc.cmd("bias_save", 4, vals=["st"]) + enc.cmd("bias_load", 4, vals=["st"]) + S + enc.cmd("bias_savetostring", 4)
                 + enc.cmd("bias_loadfromstring", 4, vals=["LAST"]) + S)
    seeds.append(enc.cmd("cv_configfile", vals=["mem.conf"]) + S + enc.cmd("colvar_value", 7) + enc.cmd("colvar_delete", 7) + enc.cmd("colvar_value", 7) + S)
    seeds.append(enc.cmd("colvar_delete", 0) + S + enc.cmd("bias_energy", 4) + enc.cmd("colvar_value", 0) + S + enc.cmd("cv_list", vals=["biases"]))
    seeds.append(enc.cmd("bias_delete", 0) + enc.cmd("bias_delete", 4) + S + enc.cmd("cv_getenergy") + enc.cmd("bias_energy", 0) + S)
    seeds.append(enc.cmd("cv_reset") + S + enc.cmd("cv_getnumactiveatoms") + enc.cmd("colvar_value", 0) + S + enc.cmd("cv_config", vals=[len(enc.values) - 1]) + S)
    seeds.append(S + E + N + S + enc.cmd("cv_printframe") + enc.cmd("cv_printframelabels") + S)
    seeds.append(enc.cmd("cv_save", vals=["out"]) + enc.cmd("cv_config", vals=["colvarsTrajFrequency 1\ncolvarsRestartFrequency 2\n"]) + S + S + S + E + N + S)
    seeds.append(enc.cmd("colvar_set", 0, vals=["collect_gradient", "1"]) + S + enc.cmd("colvar_getgradients", 0) + enc.cmd("colvar_getatomids", 0) + S)
    seeds.append(enc.cmd("colvar_addforce", 0, vals=["0.5"]) + enc.cmd("colvar_update", 0) + enc.cmd("colvar_communicateforces", 0) + enc.cmd("cv_getatomappliedforces") + S)
    seeds.append(enc.cmd("colvar_cvcflags", 0, vals=["0"]) + S + enc.cmd("colvar_value", 0) + enc.cmd("colvar_cvcflags", 0, vals=["1 1"]) + S)
    seeds.append(enc.cmd("cv_config", vals=["abf {\n name a\n colvars d\n fullSamples 2\n}\n"]) + S + S + enc.cmd("bias_bin", 7) + enc.raw(["cv", "bias", "a", "bincount", "1"])
                 + enc.raw(["cv", "bias", "a", "bincount", "-1"]) + enc.raw(["cv", "bias", "a", "bincount", "2147483648"]) + enc.raw(["cv", "bias", "a", "binnum"]) + S)
    seeds.append(enc.raw(["cv"]) + enc.raw([]) + enc.raw(["cv", "colvar"]) + enc.raw(["cv", "colvar", "d"]) + enc.raw(["cv", "bias", "harmonic1", ""]) + enc.raw(["cv", "nope"])
                 + enc.raw(["cv", "colvar", "nope", "help"]) + enc.raw(["cv", "bias", "nope", "help", "energy"]) + enc.raw(["", "", "", ""]) + S)
    for ncv in ("e", "u", "q", "r"):
        cfg = [v for v in enc.values if v.startswith("colvar {\n name %s\n" % ncv)]
        if cfg:
            seeds.append(enc.cmd("cv_config", vals=[cfg[0]]) + S + enc.raw(["cv", "colvar", ncv, "value"]) + enc.raw(["cv", "colvar", ncv, "getappliedforce"])
                         + enc.raw(["cv", "colvar", ncv, "addforce", "0.5"]) + enc.raw(["cv", "colvar", ncv, "run_ave"]) + S + S + enc.raw(["cv", "colvar", ncv, "delete"]) + S)
    for b in ("hi", "li", "h2", "m2"):
        cfg = [v for v in enc.values if ("name %s\n" % b) in v]
        if cfg:
            seeds.append(enc.cmd("cv_config", vals=[cfg[0]]) + S + S + b"".join(enc.raw(["cv", "bias", b, sub]) for sub in ("energy", "bin", "binnum", "state", "share", "update", "savetostring"))
                         + enc.raw(["cv", "bias", b, "loadfromstring", "LAST"]) + S + enc.raw(["cv", "bias", b, "delete"]) + S)
    return seeds


def fuzz_env(stats_dir, scratch):
    return {"FZ_SCRIPT_STATS": stats_dir, "FZ_SCRIPT_SCRATCH": scratch}


def run_target(exe, path, cwd, budget=1, trace=True):
    env = {"FZ_SCRIPT_SCRATCH": cwd}
    if trace:
        env["FZ_SCRIPT_TRACE"] = "1"
    return common.run_proc([exe, "-timeout=%d" % (10 * budget), "-rss_limit_mb=3000", "-malloc_limit_mb=2000", path],
                           timeout=10 * budget + 40, env=env, cwd=cwd)


def triage(exe, path, cwd):
    base = os.path.basename(path)
    is_timeout = "timeout-" in base
    r = run_target(exe, path, cwd, budget=10 if is_timeout else 1)
    err = r["err"]
    kind = crash_kind(err, r["timeout"])
    if kind is None and (r["rc"] not in (0, None)):
        kind = "exit-%s" % r["rc"]
    if kind is None and r["sig"]:
        kind = "signal-%d" % r["sig"]
    frame = epilogue_diff(err) if kind == "epilogue_mismatch" else src_frame(err)
    trace = [l for l in err.splitlines() if l.startswith("FZ_SCRIPT ")]
    return dict(path=path, kind=kind, frame=frame, err=err, hang=bool(r["timeout"]), was_timeout=is_timeout, trace=trace)


def minimise(exe, data, cwd, kind, frame, table, work, tag, max_runs=60):
    """drop whole records while (kind, frame) is preserved"""
    recs = decode_records(data, table)
    runs = 0

    def same(cand):
        nonlocal runs
        runs += 1
        p = os.path.join(work, "min_%s.in" % tag)
        with open(p, "wb") as f:
            f.write(b"".join(cand))
        r = run_target(exe, p, cwd, trace=False)
        k = crash_kind(r["err"], r["timeout"])
        fr = epilogue_diff(r["err"]) if k == "epilogue_mismatch" else src_frame(r["err"])
        return k == kind and fr == frame

    if len(recs) < 2 or b"".join(recs) != bytes(data) and not same(recs):
        return bytes(data)
    chunk = max(1, len(recs) // 2)
    while chunk >= 1 and runs < max_runs:
        i = 0
        changed = False
        while i < len(recs) and runs < max_runs:
            cand = recs[:i] + recs[i + chunk:]
            if cand and same(cand):
                recs = cand
                changed = True
            else:
                i += chunk
        if chunk == 1 and not changed:
            break
        chunk = chunk // 2 if chunk > 1 else (1 if changed else 0)
    return b"".join(recs)


def run_fuzz(c, tier):
    c.use_flavour("fuzz")
    exe = common.vbuild.tool("fuzz", "fz_script")
    root = os.path.join(c.work, "fz")
    d = {k: os.path.join(root, k) for k in ("seeds", "corpus", "art", "cwd", "logs", "stats")}
    for p in d.values():
        os.makedirs(p, exist_ok=True)
    r = common.run_proc([exe], timeout=120, env={"FZ_SCRIPT_DUMP": "1", "FZ_SCRIPT_SCRATCH": d["cwd"]}, cwd=d["cwd"])
    try:
        dump = json.loads(r["out"].strip().splitlines()[-1])
    except (ValueError, IndexError):
        if "FZ_SCRIPT REFERENCE EPILOGUE FAILED" in r["err"]:
            c.violation("fuzz:epilogue_reference_failed", "cv reset / cv config <known configuration> / one step fails on a module that "
                        "only loaded that configuration and made one step: %s" % r["err"][-600:])
        else:
            c.inconc("fz_script did not print its tables: rc=%s %s" % (r["rc"], r["err"][-300:]))
        return 0, {}, []
    enc = Enc(dump)
    table = dump["commands"]
    seeds = make_seeds(enc, c.rng)
    workers = 8 if tier == "quick" else 16
    # every seed input is run once (shared out between the workers); a seed that crashes is kept as an artifact and does
    # not stop the others
    for w in range(workers):
        os.makedirs(os.path.join(d["seeds"], "w%d" % w), exist_ok=True)
    for i, sd in enumerate(seeds):
        with open(os.path.join(d["seeds"], "w%d" % (i % workers), "s%04d" % i), "wb") as f:
            f.write(sd)
    c.extra["fuzz_seed_inputs"] = len(seeds)
    c.extra["registered_commands"] = len(table)
    # the budget is a number of executions per worker (about 45 s x 8 / 15 min x 16 on an idle 16-core machine); the
    # wall-clock limit is only a watchdog.  A launch that ends with a crash is followed by another one for the rest.
    per_worker = 1350 if tier == "quick" else 22000
    total = 300 if tier == "quick" else 2400
    max_launches = 25 if tier == "quick" else 120
    deadline = time.time() + total
    stats = []
    lock = threading.Lock()

    def launch(w, tag, args, remain, every):
        log = os.path.join(d["logs"], "w%d_%s.log" % (w, tag))
        cmd = [exe] + args + ["-timeout=10", "-rss_limit_mb=3000", "-malloc_limit_mb=2000", "-print_final_stats=1",
                              "-artifact_prefix=" + os.path.join(d["art"], "w%d_" % w)]
        env = dict(os.environ)
        env.update(common.SAN_ENV)
        env.update(fuzz_env(d["stats"], d["cwd"]))
        env["FZ_SCRIPT_STATS_EVERY"] = str(every)
        with open(log, "wb") as lf:
            try:
                p = subprocess.run(cmd, stdout=lf, stderr=subprocess.STDOUT, stdin=subprocess.DEVNULL,
                                   cwd=d["cwd"], env=env, timeout=remain + 120)
                rc = p.returncode
            except subprocess.TimeoutExpired:
                rc = "watchdog"
        return rc, open(log, errors="replace").read()

    def worker(w):
        launches = 0
        done = 0
        sdir = os.path.join(d["seeds"], "w%d" % w)
        bad = os.path.join(d["seeds"], "crashing_w%d" % w)
        os.makedirs(bad, exist_ok=True)
        # 1. the seed inputs, as a list of files; after a crash the remaining ones are run by a new process
        todo = sorted(os.path.join(sdir, f) for f in os.listdir(sdir))
        while todo and launches < max_launches:
            remain = int(deadline - time.time())
            if remain < 4:
                break
            launches += 1
            rc, txt = launch(w, "seeds%d" % launches, todo, remain, 1)
            ran = re.findall(r"^Running: (\S+)", txt, re.M)
            finished = set(re.findall(r"^Executed (\S+) in ", txt, re.M))
            ex = len(ran)
            done += ex
            with lock:
                stats.append(dict(worker=w, launch=launches, rc=rc, execs=ex, cov=0, ft=0, phase="seeds"))
            if rc == 0 and len(finished) >= len(todo):
                todo = []
                break
            culprit = [f for f in ran if f not in finished]
            for f in culprit:
                if os.path.exists(f):
                    # (libFuzzer writes no artifact when it runs a list of files)
                    kindname = "timeout-" if (rc == "watchdog" or "ERROR: libFuzzer: timeout" in txt) else "crash-"
                    shutil.copy(f, os.path.join(d["art"], "w%d_%sseed_%s" % (w, kindname, os.path.basename(f))))
                    shutil.move(f, os.path.join(bad, os.path.basename(f)))
            todo = [f for f in todo if f not in finished and f not in culprit]
            if not ran:
                break
        # 2. fuzzing from the seeds of this worker and the shared corpus
        while launches < max_launches and done < per_worker:
            remain = int(deadline - time.time())
            if remain < 4:
                break
            launches += 1
            rc, txt = launch(w, "fuzz%d" % launches,
                             [d["corpus"], sdir, "-runs=%d" % max(1, per_worker - done), "-max_total_time=%d" % remain, "-max_len=400",
                              "-len_control=0", "-seed=%d" % (c.seed * 100003 + w * 1009 + launches)], remain, 64)
            m = re.search(r"stat::number_of_executed_units:\s*(\d+)", txt)
            ex = int(m.group(1)) if m else 0
            if not m:
                ms = re.findall(r"^#(\d+)\s", txt, re.M)
                ex = int(ms[-1]) if ms else 0
            cf = re.findall(r"cov: (\d+) ft: (\d+)", txt)
            done += max(ex, 1)
            with lock:
                stats.append(dict(worker=w, launch=launches, rc=rc, execs=ex, phase="fuzz",
                                  cov=int(cf[-1][0]) if cf else 0, ft=int(cf[-1][1]) if cf else 0))

    th = [threading.Thread(target=worker, args=(w,)) for w in range(workers)]
    for t in th:
        t.start()
    for t in th:
        t.join()
    execs = sum(s["execs"] for s in stats)
    c.count(execs)
    c.extra["fuzz_executions"] = execs
    c.extra["fuzz_launches"] = len(stats)
    c.extra["fuzz_launches_ended_by_crash"] = sum(1 for s in stats if s["rc"] not in (0,))
    c.extra["fuzz_cov_edges"] = max([s["cov"] for s in stats] + [0])
    c.extra["fuzz_corpus_units"] = len(os.listdir(d["corpus"]))
    c.extra["fuzz_seed_inputs_that_crash"] = sum(len(os.listdir(os.path.join(d["seeds"], x))) for x in os.listdir(d["seeds"]) if x.startswith("crashing_"))
    if any(s["rc"] == "watchdog" for s in stats):
        c.inconc("a fuzzer process had to be stopped by the watchdog")
    # command statistics written by the target processes
    per = {}
    tot = {"inputs": 0, "commands": 0, "steps": 0}
    for f in os.listdir(d["stats"]):
        if not f.endswith(".stats"):
            continue
        for line in open(os.path.join(d["stats"], f)):
            t = line.split()
            if len(t) == 2 and t[0].startswith("#"):
                tot[t[0][1:]] = tot.get(t[0][1:], 0) + int(t[1])
            elif len(t) == 4:
                a = per.setdefault(t[0], [0, 0, 0])
                for k in range(3):
                    a[k] += int(t[k + 1])
    c.extra["fuzz_commands_run"] = tot["commands"]
    c.extra["fuzz_steps_run"] = tot["steps"]

    # triage: one process per distinct artifact
    arts = {}
    for f in sorted(os.listdir(d["art"])):
        p = os.path.join(d["art"], f)
        h = hashlib.sha1(open(p, "rb").read()).hexdigest()
        arts.setdefault(h, p)
    c.extra["fuzz_artifacts"] = len(arts)
    tri = common.pmap(lambda p: triage(exe, p, d["cwd"]), list(arts.values())[:300], jobs=8)
    bykey = collections.OrderedDict()
    for t in tri:
        if t["kind"] is None:
            if t["was_timeout"]:
                c.bump("fuzz_slow_units_not_hangs")
            else:
                c.bump("fuzz_artifacts_not_reproduced")
                c.inconc("artifact %s did not reproduce when run alone" % os.path.basename(t["path"]))
            continue
        bykey.setdefault("%s:%s" % (t["kind"], t["frame"]), []).append(t)

    def reduce_one(item):
        key, ts = item
        t = min(ts, key=lambda x: os.path.getsize(x["path"]))
        data = open(t["path"], "rb").read()
        if t["hang"] or t["kind"] in ("hang",) or t["kind"].startswith("libfuzzer-"):
            return t, data, t["trace"]
        tag = hashlib.sha1(key.encode()).hexdigest()[:10]
        try:
            small = minimise(exe, data, d["cwd"], t["kind"], t["frame"], table, root, tag)
        except Exception:
            small = data
        mp = os.path.join(root, "min_%s.in" % tag)
        with open(mp, "wb") as f:
            f.write(small)
        r = run_target(exe, mp, d["cwd"])
        return t, small, [l for l in r["err"].splitlines() if l.startswith("FZ_SCRIPT ")]

    reduced = common.pmap(reduce_one, list(bykey.items()), jobs=8)
    found = []
    for (key, ts), (t, small, trace) in zip(bykey.items(), reduced):
        tag = hashlib.sha1(key.encode()).hexdigest()[:10]
        mp = os.path.join(root, "minimised_" + tag + ".in")
        with open(mp, "wb") as f:
            f.write(small)
        sp = os.path.join(root, "stack_" + tag + ".txt")
        with open(sp, "w") as f:
            f.write("\n".join(trace) + "\n\n" + t["err"][-20000:])
        head = (common.sanitizer_report(t["err"]) or t["kind"])
        seq = [l[len("FZ_SCRIPT "):].strip() for l in trace][-10:]
        text = ("%s; innermost Colvars frame / first differing epilogue record %s; %d artifact(s); last commands of the "
                "minimised sequence (%d bytes): %s" % (head, t["frame"], len(ts), len(small), " | ".join(s[:160] for s in seq)))
        found.append(key)
        c.violation("fuzz:" + key, text, files=[t["path"], mp, sp], payload={"artifacts": [os.path.basename(x["path"]) for x in ts][:20],
                                                                            "trace": trace[-40:]})
    left = [f for f in os.listdir(d["cwd"]) if not f.startswith("fzs_")]
    c.extra["fuzz_files_written_outside_scratch"] = left[:10]
    return execs, per, table


# ---------------------------------------------------------------------------------------------------------------
# b. agreement
# ---------------------------------------------------------------------------------------------------------------

NUMRE = re.compile(r"[-+]?(?:\d+\.?\d*(?:[eE][-+]?\d+)?|\.\d+(?:[eE][-+]?\d+)?|nan|inf)")


def nums(s):
    return [float(x) for x in NUMRE.findall(s)]


def same_printed(tok, v):
    """does the printed number equal v rounded to the precision it was printed with (6 or 15 digits)?"""
    v = fl(v)
    if tok != tok or v != v:
        return (tok != tok) and (v != v)
    return any(float("%.*g" % (nd, v)) == tok for nd in (6, 15)) or tok == v


def all_same(toks, vals):
    return len(toks) == len(vals) and all(same_printed(a, b) for a, b in zip(toks, vals))


NATA = 30
AG_KINDS = [("distance", "scalar"), ("angle", "scalar"), ("dihedral", "scalar"), ("distanceVec", "vec3"), ("distanceDir", "unit3"),
            ("orientation", "quat"), ("cartesian", "vector"), ("ext", "scalar"), ("gyration", "scalar")]


def ag_colvar(rng, sysm, pool, name, kind, grads=True):
    extra = []
    ext = kind == "ext"
    ctype = "distance" if ext else kind
    tf = ctype in ("distance", "angle", "dihedral", "gyration") and not ext and rng.random() < 0.7
    if ext:
        extra += ["extendedLagrangian on", "extendedFluctuation 0.25", "extendedTimeConstant 40", "extendedLangevinDamping 0"]
    if tf:
        extra.append("outputTotalForce on")
    w = rng.choice([1.0, 0.5, 2.0])
    extra.append("width %s" % fnum(w))
    cv = corpus.make_colvar(rng, sysm, pool, name, ctype, {}, extra_lines=extra)
    cv["ext"] = ext
    cv["want_tf"] = tf
    cv["width"] = w
    return cv


def ag_bias(rng, cv, bname):
    vt = cv["vtype"]
    kinds = ["harmonic", "harmonic"]
    if vt == "scalar":
        kinds += ["walls", "meta"] + ([] if cv.get("period") else ["linear"])
    kind = rng.choice(kinds)
    lines = ["  name %s" % bname, "  colvars %s" % cv["name"]]
    if kind == "harmonic":
        lines += ["  centers %s" % corpus.value_str(vt, corpus.random_value(rng, cv)), "  forceConstant %s" % fnum(round(rng.uniform(0.5, 4.0), 3))]
        if rng.random() < 0.4:
            lines += ["  targetCenters %s" % corpus.value_str(vt, corpus.random_value(rng, cv)), "  targetNumSteps 12", "  outputAccumulatedWork on"]
        t = "harmonic"
    elif kind == "walls":
        lines += ["  lowerWalls 1.0", "  upperWalls 2.5", "  forceConstant %s" % fnum(round(rng.uniform(0.5, 4.0), 3))]
        t = "harmonicWalls"
    elif kind == "linear":
        lines += ["  centers 1.0", "  forceConstant %s" % fnum(round(rng.uniform(-2.0, 2.0), 3))]
        t = "linear"
    else:
        lines += ["  hillWeight 0.3", "  hillWidth 1.5", "  newHillFrequency 2", "  useGrids off"]
        t = "metadynamics"
    return dict(name=bname, cv=cv["name"], kind=kind, text="%s {\n%s\n}\n" % (t, "\n".join(lines)))


def jitter(rng, pos, amp):
    return [[x + rng.uniform(-amp, amp) for x in p] for p in pos]


def gen_agree(rng, idx):
    sysm = corpus.make_system(rng, natoms=NATA, box=7.0)
    pool = list(range(1, NATA + 1))
    kinds = rng.sample(AG_KINDS, rng.randint(2, 4))
    cvs, biases = [], []
    for i, (k, _) in enumerate(kinds):
        try:
            cvs.append(ag_colvar(rng, sysm, pool, "c%d" % i, k))
        except ValueError:
            break
    for i, cv in enumerate(cvs):
        for j in range(rng.choice([0, 1, 1, 2])):
            biases.append(ag_bias(rng, cv, "b%d_%d" % (i, j)))
    T = rng.randint(4, 8)
    start = rng.choice([0, 0, 250])
    newrun_at = rng.randint(1, T - 1) if rng.random() < 0.4 else None
    steps = []
    pos = sysm["pos"]
    for t in range(T):
        pos = jitter(rng, pos, 0.15)
        steps.append((pos, [[rng.uniform(-3, 3) for _ in range(3)] for _ in range(NATA)]))
    # a scripted-force procedure that adds a force on the first variable and an energy (cv addenergy), called before or
    # after the built-in biases
    cb = None
    if rng.random() < 0.3 and cvs:
        cb = dict(after=(rng.random() < 0.5), energy=fnum(round(rng.uniform(-3, 3), 3) or 1.5), force=fnum(round(rng.uniform(-0.5, 0.5), 3)), cv=cvs[0]["name"])
    return dict(idx=idx, sysm=sysm, cvs=cvs, biases=biases, T=T, start=start, newrun_at=newrun_at, steps=steps, cb=cb)


def agree_queries(case):
    q = []
    for cv in case["cvs"]:
        n = cv["name"]
        q.append(("value", n, ["cv", "colvar", n, "value"]))
        q.append(("fa", n, ["cv", "colvar", n, "getappliedforce"]))
        if cv["want_tf"]:
            q.append(("ft", n, ["cv", "colvar", n, "gettotalforce"]))
        if cv["vtype"] == "scalar":
            q.append(("grad", n, ["cv", "colvar", n, "getgradients"]))
            q.append(("ids", n, ["cv", "colvar", n, "getatomids"]))
    for b in case["biases"]:
        q.append(("benergy", b["name"], ["cv", "bias", b["name"], "energy"]))
    q.append(("energy", "", ["cv", "getenergy"]))
    q.append(("aids", "", ["cv", "getatomids"]))
    q.append(("af", "", ["cv", "getatomappliedforces"]))
    q.append(("nact", "", ["cv", "getnumactiveatoms"]))
    q.append(("state", "", ["cv", "savetostring"]))
    # a command without a result and a failing command right after one with a long result: what they return must be
    # their own (empty result / error message), not what the previous command left
    q.append(("empty", "", ["cv", "addenergy", "0"]))
    q.append(("state2", "", ["cv", "savetostring"]))
    q.append(("errmsg", "", ["cv", "colvar", "no_such_variable", "value"]))
    q.append(("it", "", ["cv", "getstepabsolute"]))
    return q


def agree_scenario(case):
    s = corpus.scenario_header(case["sysm"], tfmode="same", extra="dt 1.0\ntemp 300.0")
    glob = "colvarsTrajFrequency 0\n"
    if case.get("cb"):
        s += "forcecb %s %s %s\n" % (case["cb"]["cv"], case["cb"]["force"], case["cb"]["energy"])
        glob += "scriptedColvarForces on\nscriptingAfterBiases %s\n" % ("on" if case["cb"]["after"] else "off")
    s += "module\nconfig <<EOC\n" + glob + "\n".join(c["text"] for c in case["cvs"]) + "\n" + "".join(b["text"] for b in case["biases"]) + "EOC\ninit\n"
    if case["start"]:
        s += "setstep %d\n" % case["start"]
    for cv in case["cvs"]:
        if cv["vtype"] == "scalar":
            s += "script " + json.dumps(["cv", "colvar", cv["name"], "set", "collect_gradient", "1"]) + "\n"
    q = agree_queries(case)
    for t, (pos, fext) in enumerate(case["steps"]):
        s += corpus.pos_line(pos) + "\n" + corpus.fext_line(fext) + "\nstep\nsavestr\n"
        for _, _, argv in q:
            s += "script " + json.dumps(argv) + "\n"
        if case["newrun_at"] == t:
            s += "endrun\nnewrun\nstep\nsavestr\n"
            for _, _, argv in q:
                s += "script " + json.dumps(argv) + "\n"
    return s


def check_agree(c, case, r, ev, sp):
    def viol(key, text):
        if key in c.extra.setdefault("_agree_keys", set()):
            c.bump("further_instances_of_reported_keys")
            return
        c.extra["_agree_keys"].add(key)
        c.violation(key, "agreement case %d: %s" % (case["idx"], text), files=[sp])

    if not r["complete"]:
        if r["sig"] or r["timeout"] or common.sanitizer_report(r["err"]):
            viol("agree_crash:%s:%s" % (crash_kind(r["err"], r["timeout"]) or ("signal-%s" % r["sig"]), src_frame(r["err"])),
                 "valid scenario with script queries: %s" % (common.sanitizer_report(r["err"]) or r["err"][-300:]))
        else:
            c.inconc("agreement case %d incomplete: %s" % (case["idx"], r["err"][-200:]))
        return 0
    if any(e["ev"] == "config" and (e.get("rc") or e.get("err")) for e in ev):
        c.inconc("agreement case %d: configuration rejected" % case["idx"])
        return 0
    q = agree_queries(case)
    cvmap = {cv["name"]: cv for cv in case["cvs"]}
    # walk: step, savestr, then len(q) script events
    i = 0
    ncmp = 0
    blocks = 0
    while i < len(ev):
        if ev[i]["ev"] != "step":
            i += 1
            continue
        st = ev[i]
        sv = ev[i + 1] if i + 1 < len(ev) else None
        qs = ev[i + 2:i + 2 + len(q)]
        if sv is None or sv["ev"] != "savestr" or len(qs) != len(q) or any(x["ev"] != "script" for x in qs):
            i += 1
            continue
        i += 2 + len(q)
        blocks += 1
        aids = None
        grads = {}
        ids = {}
        for (kind, name, argv), e in zip(q, qs):
            res = e["res"]
            where = "step %d, %s" % (st["it"], " ".join(argv))
            if kind == "errmsg":
                if e["rc"] == 0 or "configuration" in res or len(res) > 300:
                    viol("agree:stale_result:after_error", "%s (after cv savetostring) returned %d and the result %r" % (where, e["rc"], res[:120]))
                ncmp += 1
                continue
            if kind == "empty":
                if e["rc"] != 0 or res != "":
                    viol("agree:stale_result:command_without_result", "%s (after cv savetostring) returned %d and the result %r" % (where, e["rc"], res[:120]))
                ncmp += 1
                continue
            if kind == "state2":
                continue
            if e["rc"] != 0:
                viol("agree_query_failed:" + argv[-1], "%s returned %d: %s" % (where, e["rc"], res[:200]))
                continue
            tk = nums(res)
            if kind == "value":
                want = st["cv"][name]["x"]
                if not all_same(tk, want):
                    viol("agree:value:" + cvmap[name]["vtype"], "%s -> %r, engine-side value %s" % (where, res[:200], want))
            elif kind == "fa":
                want = st["cv"][name]["fa"]
                if not all_same(tk, want):
                    viol("agree:getappliedforce:" + cvmap[name]["vtype"] + ("+ext" if cvmap[name]["ext"] else ""),
                         "%s -> %r, engine-side applied force %s" % (where, res[:200], want))
            elif kind == "ft":
                want = st["cv"][name].get("ft")
                if want is None:
                    c.bump("agree_total_force_not_recorded")
                elif not all_same(tk, want):
                    viol("agree:gettotalforce", "%s -> %r, engine-side total force %s" % (where, res[:200], want))
            elif kind == "grad":
                grads[name] = [nums(x) for x in re.findall(r"\{([^{}]*)\}", res)]
            elif kind == "ids":
                ids[name] = [int(x) for x in tk]
                want = sorted(set(a - 1 for comp in cvmap[name]["comps"] for a in comp["atoms"]))
                if sorted(ids[name]) != want:
                    viol("agree:getatomids", "%s -> %r, atoms of the variable (0-based) %s" % (where, res[:200], want))
            elif kind == "benergy":
                want = [st["bias"][name]["e"]]
                if not all_same(tk, want):
                    viol("agree:bias_energy", "%s -> %r, engine-side bias energy %s" % (where, res[:100], want))
            elif kind == "energy":
                en = [fl(x) for x in st["en"]]
                if len(tk) == 1 and same_printed(tk[0], sum(en)):
                    pass
                elif len(tk) == 1 and en and same_printed(tk[0], en[0]):
                    c.bump("getenergy_is_the_bias_energy_only_colvar_energy_nonzero")
                else:
                    viol("agree:getenergy", "%s -> %r, energies passed to the engine %s" % (where, res[:100], en))
            elif kind == "aids":
                aids = [int(x) for x in tk]
            elif kind == "af":
                vecs = [nums(x) for x in re.findall(r"\{([^{}]*)\}", res)]
                if aids is None or len(vecs) != len(aids):
                    viol("agree:getatomappliedforces_shape", "%s -> %d vectors for %s atom ids" % (where, len(vecs), None if aids is None else len(aids)))
                else:
                    tot = {}
                    for a, v in zip(aids, vecs):
                        if len(v) != 3:
                            viol("agree:getatomappliedforces_shape", "%s -> element %r" % (where, v))
                            break
                        tot.setdefault(a, []).append(v)
                    for a, lst in tot.items():
                        want = [fl(x) for x in st["af"][a]] if 0 <= a < len(st["af"]) else None
                        nz = [v for v in lst if any(x != 0.0 for x in v)]
                        v = nz[0] if len(nz) == 1 else (lst[0] if not nz else None)
                        if want is None or v is None or not all_same(v, want):
                            if v is None:
                                continue   # the same atom requested twice with forces on both slots: sum not printed
                            viol("agree:getatomappliedforces", "%s: atom %d -> %s, force passed to the engine %s" % (where, a, v, want))
                            break
            elif kind == "nact":
                if tk != [float(st["nact"])]:
                    viol("agree:getnumactiveatoms", "%s -> %r, engine-side %d" % (where, res[:50], st["nact"]))
            elif kind == "state":
                if res != sv["state"]:
                    viol("agree:savetostring", "%s differs from write_restart_string() of the same step (lengths %d / %d)" % (where, len(res), len(sv["state"])))
            elif kind == "it":
                if tk != [float(st["it"])]:
                    viol("agree:getstepabsolute", "%s -> %r, engine-side step %d" % (where, res[:50], st["it"]))
            ncmp += 1
        # gradients x applied force == atomic forces (scalar, non-extended variables on their own atoms)
        for name, g in grads.items():
            cv = cvmap[name]
            if cv["ext"] or name not in ids or len(g) != len(ids[name]):
                continue
            fa = fl(st["cv"][name]["fa"][0])
            if not st["cv"][name].get("on"):
                continue
            for a, gv in zip(ids[name], g):
                if len(gv) != 3:
                    continue
                want = [fl(x) for x in st["af"][a]]
                got = [fa * x for x in gv]
                scale = max(1e-12, max(abs(x) for x in want + got))
                if any(abs(x - y) > 1e-12 * scale for x, y in zip(got, want)):
                    viol("agree:getgradients", "step %d variable %s atom %d: applied force %.17g x gradient %s = %s, atomic force passed to the "
                         "engine %s" % (st["it"], name, a, fa, gv, got, want))
                    break
            c.bump("agree_gradient_checks")
    c.bump("agree_queries_compared", ncmp)
    if blocks:
        for cv in case["cvs"]:
            c.nontrivial("agree|%s%s" % (cv["vtype"], "+ext" if cv["ext"] else ""))
        for b in case["biases"]:
            c.nontrivial("agree|bias|%s" % b["kind"])
    return blocks


# ---------------------------------------------------------------------------------------------------------------
# c. equivalence of paths
# ---------------------------------------------------------------------------------------------------------------

STEP_FIELDS = ("it", "rc", "err", "en", "cv", "bias", "af", "nact")


def steps_of(ev, after_mark=None):
    out = []
    on = after_mark is None
    for e in ev:
        if e["ev"] == "mark" and e.get("tag") == after_mark:
            on = True
        elif e["ev"] == "step" and on:
            out.append({k: e.get(k) for k in STEP_FIELDS})
    return out


def first_diff(a, b, path="", tol=0.0):
    if tol and isinstance(a, (int, float)) and isinstance(b, (int, float)) and not isinstance(a, bool):
        if abs(a - b) <= tol * max(1.0, abs(a), abs(b)) or (a != a and b != b):
            return None
        return "%s: %r vs %r" % (path, a, b)
    if type(a) != type(b) and not (isinstance(a, (int, float)) and isinstance(b, (int, float))):
        return "%s: %r vs %r" % (path, a, b)
    if isinstance(a, dict):
        if set(a) != set(b):
            return "%s: keys %s vs %s" % (path, sorted(a), sorted(b))
        for k in a:
            d = first_diff(a[k], b[k], path + "/" + str(k), tol)
            if d:
                return d
        return None
    if isinstance(a, list):
        if len(a) != len(b):
            return "%s: lengths %d vs %d" % (path, len(a), len(b))
        for i, (x, y) in enumerate(zip(a, b)):
            d = first_diff(x, y, "%s[%d]" % (path, i), tol)
            if d:
                return d
        return None
    if a != b and not (a != a and b != b):
        return "%s: %r vs %r" % (path, a, b)
    return None


def header(case):
    return corpus.scenario_header(case["sysm"], tfmode="same", extra="dt 1.0\ntemp 300.0")


def step_block(case, frm=0, to=None):
    s = ""
    for pos, fext in case["steps"][frm:to]:
        s += corpus.pos_line(pos) + "\n" + corpus.fext_line(fext) + "\nstep\n"
    return s


def gen_equiv(rng, idx):
    """-> (kind, dict of scenario texts, compare spec)"""
    kind = ["config", "load", "loadstr", "delete", "addforce", "modifycvcs"][idx % 6]
    case = gen_agree(rng, idx)
    case["T"] = len(case["steps"])
    cvtxt = "\n".join(cv["text"] for cv in case["cvs"]) + "\n"
    btxt = "".join(b["text"] for b in case["biases"])
    glob = "colvarsTrajFrequency 0\n"
    if kind == "modifycvcs":
        # A: a component defined with coefficient c2; B: defined with c1, then `cv colvar <name> modifycvcs "componentCoeff c2"`
        # before the first step: every later step event (values, applied and total forces, energies, atomic forces) is equal
        cand = [cv for cv in case["cvs"] if cv["vtype"] == "scalar" and not cv["ext"] and re.search(r"\n  (distance|angle|gyration) \{\n", cv["text"])]   # a periodic component keeps the period it had when defined
        if not cand:
            return dict(kind=kind, idx=idx, sub="none", scn={"A": "", "B": ""}, case=case, trivial=True)
        cv = cand[0]
        c1, c2 = rng.choice([(0.5, 2.0), (1.0, -1.5), (3.0, 0.25), (2.0, 1.0)])

        def with_coeff(text, cf):
            return re.sub(r"\n  (distance|angle|gyration) \{\n", lambda m: m.group(0) + "    componentCoeff %s\n" % fnum(cf), text, count=1)
        others = "\n".join(o["text"] for o in case["cvs"] if o is not cv)
        ta = glob + with_coeff(cv["text"], c2) + "\n" + others + "\n" + btxt
        tb = glob + with_coeff(cv["text"], c1) + "\n" + others + "\n" + btxt
        a = header(case) + "module\nconfig <<EOC\n" + ta + "EOC\ninit\nmark go\n" + step_block(case, 0)
        b = (header(case) + "module\nconfig <<EOC\n" + tb + "EOC\nscript " +
             json.dumps(["cv", "colvar", cv["name"], "modifycvcs", "\"componentCoeff %s\"" % fnum(c2)]) + "\ninit\nmark go\n" + step_block(case, 0))
        return dict(kind=kind, idx=idx, sub="%s:%s->%s" % (cv["name"], fnum(c1), fnum(c2)), scn={"A": a, "B": b}, mark="go", case=case)
    if kind == "config":
        # A: read_config_string (one or two pieces); B: the same pieces through cv config
        two = rng.random() < 0.5
        hdr = header(case)
        if case.get("cb"):
            # module-level options (here: a scripted-force procedure acting on the first variable) are given once, in the
            # first piece, and stay in force when later pieces do not repeat them
            hdr += "forcecb %s %s\n" % (case["cb"]["cv"], case["cb"]["force"])
            glob += "scriptedColvarForces on\nscriptingAfterBiases %s\n" % ("on" if case["cb"]["after"] else "off")
        pieces = [glob + cvtxt, btxt] if (two and btxt) else [glob + cvtxt + btxt]
        late = rng.random() < 0.4 and len(pieces) == 2    # second piece after two steps
        # half of the two-piece sessions are compared with the whole text read at once by the engine
        merged = len(pieces) == 2 and not late and rng.random() < 0.5
        a = hdr + "module\n"
        b = hdr + "module\n"
        a += "config <<EOC\n" + (pieces[0] + pieces[1] if merged else pieces[0]) + "EOC\n"
        b += "script " + json.dumps(["cv", "config", pieces[0]]) + "\n"
        a += "init\n"
        b += "init\n"
        k = 2 if late else 0
        a += step_block(case, 0, k)
        b += step_block(case, 0, k)
        if len(pieces) == 2:
            if not merged:
                a += "config <<EOC\n" + pieces[1] + "EOC\n"
            b += "script " + json.dumps(["cv", "config", pieces[1]]) + "\n"
        a += "mark go\n" + step_block(case, k)
        b += "mark go\n" + step_block(case, k)
        return dict(kind=kind, idx=idx, sub=("two_pieces_late" if late else "two_pieces_vs_whole" if merged else "two_pieces" if len(pieces) == 2 else "one_piece") +
                    (":scripted_forces" if case.get("cb") else ""), scn={"A": a, "B": b}, mark="go", case=case)
    if kind in ("load", "loadstr"):
        K = rng.randint(1, case["T"] - 2)
        cfg = "config <<EOC\n" + glob + cvtxt + btxt + "EOC\n"
        # half of the cases: the module that loads through the script defined its objects in another order than the one
        # that wrote the state (objects are matched to state blocks by name); then sums run in another order: 1e-9
        reorder = rng.random() < 0.5 and (len(case["cvs"]) > 1 or len(case["biases"]) > 1) and not any(cv["ext"] for cv in case["cvs"])
        cfg_b = cfg
        if reorder:
            # make sure that the state matters at both ends of the list: hills-only metadynamics on a scalar variable
            sc = [cv for cv in case["cvs"] if cv["vtype"] == "scalar" and not cv["ext"]]
            if sc:
                def mx(nm, w):
                    return dict(name=nm, cv=sc[0]["name"], kind="meta", text="metadynamics {\n  name %s\n  colvars %s\n  hillWeight %s\n  hillWidth 1.5\n"
                                "  newHillFrequency 1\n  useGrids off\n}\n" % (nm, sc[0]["name"], w))
                case["biases"] = [mx("mx0", "0.25")] + case["biases"] + [mx("mx1", "0.375")]
                btxt = "".join(b["text"] for b in case["biases"])
                cfg = "config <<EOC\n" + glob + cvtxt + btxt + "EOC\n"
                w = None
            cfg_b = "config <<EOC\n" + glob + "\n".join(cv["text"] for cv in reversed(case["cvs"])) + "\nEOC\n"
            if btxt:
                cfg_b += "config <<EOC\n" + "".join(b["text"] for b in reversed(case["biases"])) + "EOC\n"
        rsub = ":reordered" if reorder else ""
        rtol = 1e-9 if reorder else 0.0
        # a third of the cases: the module that loads through the script has already run (the first steps of the same history):
        # loading replaces what it had accumulated, as the engine-driven load into a fresh module defines
        used = rng.random() < 0.34
        if used:
            rsub += ":used_instance"
        # the load happens between two runs of the engine, whose next run starts by computing the current step again
        pre = (step_block(case, 0, min(3, K + 1)) + "endrun\n") if used else ""
        post = "newrun\n" if used else ""
        w = header(case) + "module\n" + cfg + "init\n" + step_block(case, 0, K + 1) + "save PREFIX.colvars.state\nsavestr\n"
        if kind == "load":
            a = header(case) + "module\n" + cfg + "inprefix PREFIX\ninit\nmark go\n" + step_block(case, K)
            arg = rng.choice(["PREFIX", "PREFIX.colvars.state"])
            b = header(case) + "module\n" + cfg_b + "init\n" + pre + "script " + json.dumps(["cv", "load", arg]) + "\n" + post + "mark go\n" + step_block(case, K)
            return dict(kind=kind, idx=idx, sub=("prefix" if arg == "PREFIX" else "filename") + rsub, scn={"W": w, "A": a, "B": b}, mark="go", case=case, tol=rtol, used=used)
        a = header(case) + "module\n" + cfg + "init\nloadstr <<EOS\nSTATE_TEXTEOS\nmark go\n" + step_block(case, K)
        # half of the cases: the script first tries to load a file that does not exist (error reported, host carries on)
        badload = rng.random() < 0.5
        bl = "script [\"cv\", \"load\", \"/nonexistent-c20/no_such_state\"]\nclearerr\n" if badload else ""
        b = header(case) + "module\n" + cfg_b + "init\n" + pre + bl + "script [\"cv\", \"loadfromstring\", STATE_JSON]\n" + post + "mark go\n" + step_block(case, K)
        return dict(kind=kind, idx=idx, sub="string" + rsub + (":after_failed_load" if badload else ""), scn={"W": w, "A": a, "B": b}, mark="go", case=case, tol=rtol, used=used,
                    badload=badload)
    if kind == "delete":
        # A: everything defined, some objects deleted through the script; B: those objects never defined
        noext = [cv for cv in case["cvs"] if not cv["ext"]]
        victims_b = [b for b in case["biases"] if rng.random() < 0.5 and any(cv["name"] == b["cv"] and not cv["ext"] for cv in case["cvs"])]
        victim_cv = rng.choice(noext) if (noext and len(case["cvs"]) > 1 and rng.random() < 0.5) else None
        dead_b = set(b["name"] for b in victims_b)
        if victim_cv:
            dead_b |= set(b["name"] for b in case["biases"] if b["cv"] == victim_cv["name"])
        if not dead_b and not victim_cv:
            if case["biases"] and any(cv["name"] == case["biases"][0]["cv"] and not cv["ext"] for cv in case["cvs"]):
                dead_b = {case["biases"][0]["name"]}
                victims_b = [case["biases"][0]]
        K = rng.choice([0, 0, 2]) if case["T"] > 3 else 0
        hdr = header(case)
        if case.get("cb"):
            # a scripted-force procedure acts on the first variable at every step, whatever biases exist
            hdr += "forcecb %s %s\n" % (case["cb"]["cv"], case["cb"]["force"])
            glob += "scriptedColvarForces on\nscriptingAfterBiases %s\n" % ("on" if case["cb"]["after"] else "off")
        a = hdr + "module\nconfig <<EOC\n" + glob + cvtxt + btxt + "EOC\ninit\n" + step_block(case, 0, K)
        for bn in sorted(b["name"] for b in victims_b):
            a += "script " + json.dumps(["cv", "bias", bn, "delete"]) + "\n"
        if victim_cv:
            a += "script " + json.dumps(["cv", "colvar", victim_cv["name"], "delete"]) + "\n"
        a += "mark go\n" + step_block(case, K)
        cv_b = "\n".join(cv["text"] for cv in case["cvs"] if cv is not victim_cv) + "\n"
        b_b = "".join(b["text"] for b in case["biases"] if b["name"] not in dead_b)
        if case.get("cb") and victim_cv is not None and victim_cv["name"] == case["cb"]["cv"]:
            return dict(kind=kind, idx=idx, sub="none", scn={"A": "", "B": ""}, case=case, trivial=True)
        b = hdr + "module\nconfig <<EOC\n" + glob + cv_b + b_b + "EOC\ninit\n" + step_block(case, 0, K) + "mark go\n" + step_block(case, K)
        return dict(kind=kind, idx=idx, sub="%s%s@%d%s" % ("bias" if dead_b else "", "+colvar" if victim_cv else "", K, ":scripted_forces" if case.get("cb") else ""), scn={"A": a, "B": b}, mark="go", case=case,
                    trivial=(not dead_b and not victim_cv))
    if kind == "addforce" and (idx // 6) % 2 == 1:
        # non-scalar variable: the scripted force F (a derivative: no norm constraint) must come back unchanged from getappliedforce,
        # and the atomic forces must be linear in it: session B adds 2F at every step, its atomic forces are twice those of session A
        sysm = case["sysm"]
        pool = list(range(1, NATA + 1))
        ct = rng.choice(["orientation", "distanceVec", "distanceDir"])
        cv = corpus.make_colvar(rng, sysm, pool, "s", ct, {})
        nF = 4 if ct == "orientation" else 3
        F1 = [rng.choice([0.0, 0.5, -1.5, 3.0, -4.0, 2.0, 0.25]) for _ in range(nF)]
        if not any(F1):
            F1[1] = 3.0
        scn = {}
        for tag, fac in (("A", 1.0), ("B", 2.0)):
            Fs = " ".join(fnum(fac * x) for x in F1)
            t = header(case) + "module\nconfig <<EOC\n" + glob + cv["text"] + "\nEOC\ninit\n"
            for pos, fext in case["steps"]:
                t += corpus.pos_line(pos) + "\n" + corpus.fext_line(fext) + "\nstep\n"
                for argv in (["cv", "colvar", "s", "addforce", Fs], ["cv", "colvar", "s", "update"], ["cv", "colvar", "s", "communicateforces"],
                             ["cv", "colvar", "s", "getappliedforce"], ["cv", "getatomids"], ["cv", "getatomappliedforces"]):
                    t += "script " + json.dumps(argv) + "\n"
            scn[tag] = t
        return dict(kind=kind, idx=idx, sub="%s:nonscalar" % ct, scn=scn, case=case, F=F1, nonscalar=True)
    # addforce: one scalar variable of width w; A: linear bias of strength k (force -k/w on the variable);
    # B: no bias, after each step  addforce F=-k/w, update, communicateforces, getatomappliedforces
    sysm = case["sysm"]
    pool = list(range(1, NATA + 1))
    w = rng.choice([1.0, 0.5, 2.0, 4.0])
    kk = rng.choice([0.5, -1.5, 2.0, 3.0, -0.25])
    ct = rng.choice(["distance", "angle", "distanceZ", "gyration"])
    cv = corpus.make_colvar(rng, sysm, pool, "s", ct, {}, extra_lines=["width %s" % fnum(w)])
    F = -kk / w
    a = header(case) + "module\nconfig <<EOC\n" + glob + cv["text"] + "\nlinear {\n  name l\n  colvars s\n  centers 1.0\n  forceConstant %s\n}\nEOC\ninit\n" % fnum(kk)
    a += step_block(case)
    b = header(case) + "module\nconfig <<EOC\n" + glob + cv["text"] + "\nEOC\ninit\n"
    for pos, fext in case["steps"]:
        b += corpus.pos_line(pos) + "\n" + corpus.fext_line(fext) + "\nstep\n"
        for argv in (["cv", "colvar", "s", "addforce", fnum(F)], ["cv", "colvar", "s", "update"], ["cv", "colvar", "s", "communicateforces"],
                     ["cv", "colvar", "s", "getappliedforce"], ["cv", "getatomids"], ["cv", "getatomappliedforces"]):
            b += "script " + json.dumps(argv) + "\n"
    return dict(kind=kind, idx=idx, sub="%s:w=%s" % (ct, w), scn={"A": a, "B": b}, case=case, F=F)


def run_equiv(c, job, flavour):
    wd = os.path.join(c.work, "eq%d" % job["idx"])
    res = {}
    sps = []
    scn = dict(job["scn"])
    prefix = os.path.join(wd, "w")
    if "W" in scn:
        r, ev, sp = common.run_esim(flavour, scn["W"].replace("PREFIX", prefix), wd, "W", timeout=120)
        sps.append(sp)
        res["W"] = (r, ev)
        if not r["complete"]:
            return res, sps
        st = [e for e in ev if e["ev"] == "savestr"][-1]["state"]
        for k in ("A", "B"):
            scn[k] = scn[k].replace("PREFIX", prefix).replace("STATE_TEXT", st if st.endswith("\n") else st + "\n").replace("STATE_JSON", json.dumps(st))
    for k in ("A", "B"):
        r, ev, sp = common.run_esim(flavour, scn[k], wd, k, timeout=120)
        res[k] = (r, ev)
        sps.append(sp)
    return res, sps


def check_equiv(c, job, res, sps):
    kind = job["kind"]

    def viol(key, text):
        if key in c.extra.setdefault("_eq_keys", set()):
            c.bump("further_instances_of_reported_keys")
            return
        c.extra["_eq_keys"].add(key)
        c.violation(key, "equivalence case %d (%s, %s): %s" % (job["idx"], kind, job["sub"], text), files=sps)

    for k, (r, ev) in res.items():
        if not r["complete"]:
            if r["sig"] or r["timeout"] or common.sanitizer_report(r["err"]):
                viol("equiv_crash:%s:%s:%s" % (kind, crash_kind(r["err"], r["timeout"]) or ("signal-%s" % r["sig"]), src_frame(r["err"])),
                     "scenario %s: %s" % (k, common.sanitizer_report(r["err"]) or r["err"][-300:]))
            else:
                c.inconc("equivalence case %d scenario %s incomplete: %s" % (job["idx"], k, r["err"][-200:]))
            return False
    if len(res) < 2 or "A" not in res or "B" not in res:
        return False
    eva, evb = res["A"][1], res["B"][1]
    if job.get("trivial"):
        return False
    if kind == "addforce" and job.get("nonscalar"):
        if any(e["ev"] == "config" and (e.get("rc") or e.get("err")) for e in eva + evb):
            c.inconc("equivalence case %d: configuration rejected" % job["idx"])
            return False

        def blocks_of(evx):
            evs = [e for e in evx if e["ev"] in ("step", "script")]
            out, i = [], 0
            while i < len(evs):
                if evs[i]["ev"] == "step" and len(evs[i + 1:i + 7]) == 6 and all(x["ev"] == "script" for x in evs[i + 1:i + 7]):
                    out.append(evs[i:i + 7])
                    i += 7
                else:
                    i += 1
            return out
        ba, bb = blocks_of(eva), blocks_of(evb)
        if not ba or len(ba) != len(bb):
            c.inconc("equivalence case %d: %d / %d script blocks" % (job["idx"], len(ba), len(bb)))
            return False
        n = 0
        for ka, kb in zip(ba, bb):
            rs_ = {}
            for tag, blk, fac in (("A", ka, 1.0), ("B", kb, 2.0)):
                addf, upd, comm, gaf, ids, af = blk[1:]
                bad = [x for x in (addf, upd, comm, gaf, ids, af) if x["rc"] != 0]
                if bad:
                    viol("equiv:addforce:command_failed", "step %d: %s" % (blk[0]["it"], bad[0]["res"][:200]))
                    return False
                want = [fac * x for x in job["F"]]
                got = nums(gaf["res"])
                if len(got) != len(want) or any(abs(fl(g_) - w_) > 1e-13 * max(1.0, abs(w_)) for g_, w_ in zip(got, want)):
                    viol("equiv:addforce:getappliedforce:nonscalar", "step %d (%s): after addforce %s + update, getappliedforce says %r" % (
                        blk[0]["it"], job["sub"], want, gaf["res"][:120]))
                    return False
                rs_[tag] = ([int(x) for x in nums(ids["res"])], [nums(x) for x in re.findall(r"\{([^{}]*)\}", af["res"])])
            if rs_["A"][0] != rs_["B"][0] or len(rs_["A"][1]) != len(rs_["B"][1]):
                viol("equiv:addforce:shape", "step %d: atom lists differ between the two sessions" % ka[0]["it"])
                return False
            scale = max([1e-12] + [abs(fl(x)) for v in rs_["B"][1] for x in v])
            if scale < 1e-9:
                viol("equiv:addforce:atomic_forces:nonscalar", "step %d (%s): a scripted force %s gives no atomic force at all" % (ka[0]["it"], job["sub"], job["F"]))
                return False
            for a_, va, vb in zip(rs_["A"][0], rs_["A"][1], rs_["B"][1]):
                if len(va) != 3 or len(vb) != 3 or any(abs(2.0 * fl(x) - fl(y)) > 1e-11 * scale for x, y in zip(va, vb)):
                    viol("equiv:addforce:atomic_forces:nonscalar", "step %d (%s) atom %d: scripted force F = %s gives %s, 2F gives %s (not twice)" % (
                        ka[0]["it"], job["sub"], a_, job["F"], va, vb))
                    return False
            n += 1
        c.bump("equiv_addforce_nonscalar_steps", n)
        return n > 0
    if kind == "addforce":
        if any(e["ev"] == "config" and (e.get("rc") or e.get("err")) for e in eva + evb):
            c.inconc("equivalence case %d: configuration rejected" % job["idx"])
            return False
        sa = [e for e in eva if e["ev"] == "step"]
        i = 0
        n = 0
        evs = [e for e in evb if e["ev"] in ("step", "script")]
        blocks = []
        while i < len(evs):
            if evs[i]["ev"] == "step" and i + 6 < len(evs) + 1 and all(x["ev"] == "script" for x in evs[i + 1:i + 7]) and len(evs[i + 1:i + 7]) == 6:
                blocks.append(evs[i:i + 7])
                i += 7
            else:
                i += 1
        if len(blocks) != len(sa):
            c.inconc("equivalence case %d: %d script blocks for %d steps" % (job["idx"], len(blocks), len(sa)))
            return False
        for ea, blk in zip(sa, blocks):
            addf, upd, comm, gaf, ids, af = blk[1:]
            bad = [x for x in (addf, upd, comm, gaf, ids, af) if x["rc"] != 0]
            if bad:
                viol("equiv:addforce:command_failed", "step %d: %s" % (ea["it"], bad[0]["res"][:200]))
                return False
            if not all_same(nums(gaf["res"]), [job["F"]]):
                viol("equiv:addforce:getappliedforce", "step %d: after addforce %s + update, getappliedforce says %r" % (ea["it"], fnum(job["F"]), gaf["res"][:80]))
                return False
            aids = [int(x) for x in nums(ids["res"])]
            vecs = [nums(x) for x in re.findall(r"\{([^{}]*)\}", af["res"])]
            if len(aids) != len(vecs):
                viol("equiv:addforce:shape", "step %d: %d ids, %d force vectors" % (ea["it"], len(aids), len(vecs)))
                return False
            for a_, v in zip(aids, vecs):
                want = [fl(x) for x in ea["af"][a_]]
                scale = max(1e-12, max(abs(x) for x in want))
                # the linear bias computes -k/w, the script was given the decimal string of the same number: the
                # products may differ by an ulp; the printed 15 digits must agree to 1e-13
                if len(v) != 3 or any(abs(x - y) > 2e-14 * scale + 1e-300 for x, y in zip(v, want)):
                    viol("equiv:addforce:atomic_forces", "step %d atom %d: forces after colvar addforce %s / update / communicateforces %s; linear bias "
                         "forceConstant %s on a variable of width: %s" % (ea["it"], a_, fnum(job["F"]), v, job["sub"], want))
                    return False
            n += 1
        c.bump("equiv_addforce_steps", n)
        return n > 0
    sa = steps_of(eva, job.get("mark"))
    sb = steps_of(evb, job.get("mark"))
    # the operations themselves must have succeeded on both paths
    for k, evx in (("A", eva), ("B", evb)):
        for e in evx:
            if job.get("badload") and e["ev"] == "script" and "Error loading state file" in str(e.get("res")):
                continue          # the deliberately failing load
            if e["ev"] in ("config", "script", "load", "init") and (e.get("rc") or e.get("err")):
                other = evb if k == "A" else eva
                both = any(o["ev"] in ("config", "script", "load", "init") and (o.get("rc") or o.get("err")) for o in other)
                if both:
                    c.inconc("equivalence case %d: both paths report an error: %s" % (job["idx"], (e.get("errs") or [e.get("res", "")])[:1]))
                    return False
                viol("equiv:%s:error_on_one_path" % kind, "path %s reports rc=%s err=%s %s, the other path none" % (k, e.get("rc"), e.get("err"), (e.get("errs") or [e.get("res", "")])[:1]))
                return False
    if not sa or len(sa) != len(sb):
        viol("equiv:%s:step_count" % kind, "%d vs %d steps after the operation" % (len(sa), len(sb)))
        return False
    if kind == "delete":
        # a variable that lost its last bias through `bias delete` and is no longer computed (C13's territory: one key)
        for x, y in zip(sa, sb):
            off = [n for n in (x.get("cv") or {}) if n in (y.get("cv") or {}) and not x["cv"][n].get("on") and y["cv"][n].get("on")]
            if off:
                viol("equiv:delete:variable_left_inactive", "step %s: after `bias delete` of its last bias, variable %s is inactive (value %s), "
                     "while in the module that never defined that bias it is computed (value %s)" % (x.get("it"), off[0], x["cv"][off[0]]["x"], y["cv"][off[0]]["x"]))
                return False
    for x, y in zip(sa, sb):
        d = first_diff(x, y, tol=job.get("tol", 0.0))
        if d:
            viol("equiv:%s" % kind + (":reordered" if job.get("tol") else "") + (":used_instance" if "used_instance" in job["sub"] else "") + (":after_failed_load" if job.get("badload") else ""), "step %s: %s" % (x.get("it"), d))
            return False
    c.bump("equiv_steps_compared", len(sa))
    return True


# ---------------------------------------------------------------------------------------------------------------
# d. the same file name used again within a session: file path against string path, step by step
# ---------------------------------------------------------------------------------------------------------------

def run_reuse(c, idx, flavour):
    """Two interactive sessions given the same history.  F (files): the configuration comes from `cv configfile conf.in`; at
    two points every bias is saved to and loaded back from ONE file name (`cv bias b save p_b`, `cv bias b load p_b`: the
    second save replaces the file of the first); then `cv reset`, conf.in replaced (write + rename) by another configuration
    and read again.  S (strings): the same with `cv config`, `bias savetostring` / `bias loadfromstring`.  Every step event
    of F must equal that of S."""
    import interactive
    rng = common.random.Random(c.seed * 32452843 + idx)
    case = gen_agree(rng, idx)
    sysm = case["sysm"]
    pool = list(range(1, NATA + 1))
    ct = rng.choice(["distance", "angle", "distanceZ", "gyration"])
    cv = corpus.make_colvar(rng, sysm, pool, "s", ct, {}, extra_lines=["width 0.5"])
    cv2 = corpus.make_colvar(rng, sysm, pool, "s", rng.choice(["distance", "gyration"]), {}, extra_lines=["width 0.25"])
    T = 14
    pos = sysm["pos"]
    steps = []
    for t in range(T):
        pos = jitter(rng, pos, 0.2)
        steps.append((pos, [[rng.uniform(-3, 3) for _ in range(3)] for _ in range(NATA)]))
    x0 = {"distance": 3.0, "angle": 90.0, "distanceZ": 0.5, "gyration": 3.0}[ct]
    biases = [("pull", "harmonic {\n  name pull\n  colvars s\n  centers %s\n  targetCenters %s\n  targetNumSteps 40\n  forceConstant %s\n  outputAccumulatedWork on\n}\n"
               % (fnum(x0), fnum(x0 + rng.choice([-2.0, 3.0])), fnum(rng.uniform(0.5, 3.0)))),
              ("mt", "metadynamics {\n  name mt\n  colvars s\n  hillWeight %s\n  hillWidth 2.0\n  newHillFrequency 1\n  useGrids off\n}\n" % fnum(rng.uniform(0.1, 1.0)))]
    if rng.random() < 0.5:
        biases = biases[:1] if rng.random() < 0.5 else biases[1:]
    cfg1 = "colvarsTrajFrequency 0\n" + cv["text"] + "\n" + "".join(b for _, b in biases)
    cfg2 = "colvarsTrajFrequency 0\n" + cv2["text"] + "\nharmonic {\n  name other\n  colvars s\n  centers 1.0\n  forceConstant 2.0\n}\n"
    K1, K2, K3 = sorted(rng.sample(range(2, T - 2), 3))
    wd = os.path.join(c.work, "reuse%d" % idx)
    out = {}
    files = []
    for path in ("F", "S"):
        sub = os.path.join(wd, path)
        os.makedirs(sub, exist_ok=True)
        w = interactive.Walker(flavour, sub, log="reuse_" + path)
        evs = []

        def script(argv):
            e = w.send("script " + json.dumps(argv) + "\n")
            evs.extend(e)
            return [x for x in e if x["ev"] == "script"][-1]

        def put_conf(text):
            if path == "F":
                tmp = os.path.join(sub, "conf.in.tmp")
                with open(tmp, "w") as f:
                    f.write(text)
                os.rename(tmp, os.path.join(sub, "conf.in"))      # a new file under the old name, as editors and scripts do
                return script(["cv", "configfile", "conf.in"])
            return script(["cv", "config", text])

        def cycle():
            for b, _ in biases:
                if path == "F":
                    r1 = script(["cv", "bias", b, "save", "p_" + b])
                    r2 = script(["cv", "bias", b, "load", "p_" + b])
                else:
                    r1 = script(["cv", "bias", b, "savetostring"])
                    r2 = script(["cv", "bias", b, "loadfromstring", r1["res"]])
        try:
            evs += w.send(corpus.scenario_header(sysm, tfmode="same", extra="dt 1.0\ntemp 300.0") + "module\n")
            put_conf(cfg1)
            evs += w.send("init\n")
            for t, (ps, fext) in enumerate(steps):
                if t in (K1, K2):
                    cycle()
                if t == K3:
                    script(["cv", "reset"])
                    put_conf(cfg2)
                evs += w.send(corpus.pos_line(ps) + "\n" + corpus.fext_line(fext) + "\nstep\n")
            w.close()
        except RuntimeError as ex:
            w.close(kill=True)
            out[path] = ("died", str(ex), evs)
            files.append(os.path.join(sub, "reuse_%s.stderr" % path))
            continue
        with open(os.path.join(sub, "session.scn"), "w") as f:
            f.write(w.script_text())
        files.append(os.path.join(sub, "session.scn"))
        out[path] = ("ok", "", evs)
    return dict(idx=idx, out=out, files=files, wd=wd, T=T, K=(K1, K2, K3), biases=biases, ct=ct)


def check_reuse(c, d):
    idx, out, files, wd, T, biases, ct = d["idx"], d["out"], d["files"], d["wd"], d["T"], d["biases"], d["ct"]
    K1, K2, K3 = d["K"]
    c.count()
    for path in ("F", "S"):
        if out[path][0] != "ok":
            err = open(os.path.join(wd, path, "reuse_%s.stderr" % path)).read()[-2000:]
            if common.sanitizer_report(err) or "died (rc -" in out[path][1]:
                c.violation("reuse_crash:%s:%s" % (path, src_frame(err)), "reuse case %d path %s: %s %s" % (idx, path, out[path][1], err[-300:]), files=files)
            else:
                c.inconc("reuse case %d path %s: %s" % (idx, path, out[path][1]))
            return False
    ef, es = out["F"][2], out["S"][2]
    for k, evx in (("F", ef), ("S", es)):
        bad = [e for e in evx if e["ev"] in ("script", "config", "init") and (e.get("rc") or e.get("err"))]
        if bad:
            other = es if k == "F" else ef
            if any(e["ev"] in ("script", "config", "init") and (e.get("rc") or e.get("err")) for e in other):
                c.inconc("reuse case %d: both paths report an error: %s" % (idx, str(bad[0].get("res"))[:200]))
            else:
                c.violation("reuse:error_on_one_path:%s" % k, "reuse case %d: path %s: %s fails (%s), the other path reports no error" % (
                    idx, k, bad[0].get("argv", bad[0]["ev"]), str(bad[0].get("res") or bad[0].get("errs"))[:300]), files=files)
            return False
    sf = [e for e in ef if e["ev"] == "step"]
    ss = [e for e in es if e["ev"] == "step"]
    if len(sf) != T or len(ss) != T:
        c.inconc("reuse case %d: %d / %d step events for %d steps" % (idx, len(sf), len(ss), T))
        return False
    for t, (x, y) in enumerate(zip(sf, ss)):
        d = first_diff(x, y)
        if d:
            phase = "after_second_configfile" if t >= K3 else "after_second_bias_load" if t >= K2 else "after_first_bias_load" if t >= K1 else "before"
            c.violation("reuse:%s" % phase, "reuse case %d (biases %s; save/load before steps %d and %d, reset + new configuration before step %d): "
                        "step %d of the session using files (F) differs from the session using strings (S): %s" % (
                            idx, [b for b, _ in biases], K1, K2, K3, t, d), files=files)
            return False
    # the second load must have mattered: state at K2 differs from state at K1 (hills added / centre moved), by construction
    c.bump("reuse_steps_compared", T)
    c.nontrivial("reuse|%s|%s" % (ct, "+".join(b for b, _ in biases)))
    return True


def run(tier, replay):
    c = common.Check("C20", tier)
    c.rule = ("distinct = registered command names exercised by the fuzzer with at least one well-formed and one malformed call, "
              "plus (value type / bias kind) seen in agreement scenarios and (path kind, variant) of equivalence pairs that compared equal")
    c.assumptions = [
        "fuzz target: '/' removed from every argument, working directory = private scratch directory emptied before each input",
        "well-formed call = argument count within the registered range and (object commands) an existing object name",
        "cvm::clear_error() before every command, as the Tcl front end does",
        "printed precision: a query result equals the engine-side number rounded to 6 or 15 significant digits",
        "cv getenergy is compared with the sum of the energies passed to the engine; if it equals only the bias part "
        "(extended-Lagrangian energy not included) this is counted, not flagged",
        "addforce equivalence: addforce F, update, communicateforces after a step of a bias-free module vs linear bias with "
        "forceConstant k = -F*width; atomic forces compared to 2e-14 relative (F is passed as a decimal string)",
        "delete equivalence only for objects whose absence cannot change the history of the others (no extended-Lagrangian variable)",
    ]
    c.use_flavour("plain")
    common.vbuild.ensure("plain", tools=["esim"])
    asan_ok = True
    try:
        common.vbuild.ensure("asan", tools=["esim"])
        c.use_flavour("asan")
    except Exception:
        asan_ok = False
    rngc = c.rng.__class__

    # a. fuzz (runs in a thread while the scenario parts use the other cores: no, sequentially: verdicts do not depend on time,
    #    but the execution floor does)
    per, table = {}, []
    execs = 0
    if not os.environ.get("VERIF_C20_SKIP_FUZZ"):
        execs, per, table = run_fuzz(c, tier)
    reached = []
    missing = []
    for cmd in table:
        w, m, ok = per.get(cmd["name"], [0, 0, 0])
        if w >= 1 and m >= 1:
            reached.append(cmd["name"])
            c.nontrivial("cmd|" + cmd["name"])
        else:
            missing.append("%s(well-formed %d, malformed %d)" % (cmd["name"], w, m))
    c.extra["commands_exercised_both_ways"] = len(reached)
    c.extra["commands_not_reached"] = missing
    c.extra["commands_returning_ok_at_least_once"] = sum(1 for cmd in table if per.get(cmd["name"], [0, 0, 0])[2] > 0)

    # b. agreement
    nag = 120 if tier == "quick" else 3000

    def do_agree(i):
        rng = rngc(c.seed * 104729 + i)
        case = gen_agree(rng, i)
        fl_ = "asan" if (asan_ok and i % (4 if tier == "quick" else 3) == 0) else "plain"
        r, ev, sp = common.run_esim(fl_, agree_scenario(case), os.path.join(c.work, "ag%d" % i), "ag%d" % i, timeout=300)
        return case, r, ev, sp

    blocks = 0
    nag_ok = 0
    for case, r, ev, sp in common.pmap(do_agree, list(range(nag))):
        c.count()
        n = check_agree(c, case, r, ev, sp)
        blocks += n
        if n:
            nag_ok += 1
    c.extra["agreement_scenarios_checked"] = nag_ok
    c.extra["agreement_steps_checked"] = blocks

    # c. equivalence
    neq = 120 if tier == "quick" else 3000

    def do_equiv(i):
        rng = rngc(c.seed * 15485863 + i)
        job = gen_equiv(rng, i)
        fl_ = "asan" if (asan_ok and i % 7 == 0) else "plain"
        res, sps = run_equiv(c, job, fl_)
        return job, res, sps

    neq_ok = collections.Counter()
    for job, res, sps in common.pmap(do_equiv, list(range(neq))):
        c.count()
        if check_equiv(c, job, res, sps):
            neq_ok[job["kind"]] += 1
            c.nontrivial("equiv|%s|%s%s" % (job["kind"], job["sub"].split("@")[0].split(":")[0], "|reordered" if job.get("tol") else ""))
    c.extra["equivalence_pairs_equal"] = dict(neq_ok)

    # d. reuse of file names within a session
    nre = 24 if tier == "quick" else 400
    nre_ok = sum(1 for d in common.pmap(lambda i: run_reuse(c, i, "asan" if (asan_ok and i % 8 == 0) else "plain"), list(range(nre))) if check_reuse(c, d))
    c.extra["file_reuse_sessions_equal"] = nre_ok
    c.sample({"agreement_scenarios": nag_ok, "equivalence_pairs": dict(neq_ok), "fuzz_executions": execs,
              "commands_not_reached": missing[:10]})

    fuzz_floor = 10000 if tier == "quick" else 200000
    ok = True
    why = []
    if not os.environ.get("VERIF_C20_SKIP_FUZZ"):
        if execs < fuzz_floor:
            ok = False
            why.append("fuzz executions %d < %d" % (execs, fuzz_floor))
        if missing:
            ok = False
            why.append("commands without a well-formed and a malformed call: %s" % ", ".join(missing[:12]))
    if nag_ok < 100:
        ok = False
        why.append("agreement scenarios %d < 100" % nag_ok)
    if sum(neq_ok.values()) < (50 if tier == "quick" else 1200) or len(neq_ok) < 5:
        ok = False
        why.append("equivalence pairs %s" % dict(neq_ok))
    if nre_ok < nre * 0.8:
        ok = False
        why.append("file-reuse sessions %d of %d" % (nre_ok, nre))
    return c.finish(ok, "; ".join(why))
