"""C14 - multiple-walker sharing combines every walker's data exactly once.

Part A (shared ABF): 2-4 walker processes connected by the simulator's replica layer (FIFOs, seeded
per-message delays).  Every walker is fed its own dyadic sample history; after every exchange each
walker's state must hold, per bin, the union of all walkers' samples up to that exchange (+ its own
since), and its own contribution separately.  Counts compared with ==, means at printed precision.

Part B (multiple-walker metadynamics, file based): walker processes driven in lock-step by the
monitor, which also plays a hostile file system (peer files truncated at any byte, restored later,
peers delayed).  Exactly-once: no (replica, step) hill received twice; a walker's own hills never
change; after files are whole again and two more synchronisations every walker's bias equals the
hill sum over the union.
"""
import math
import os
import re
import shutil

import common
import ctl
import interactive
from common import fnum, fl

LO, HI, W = -4.0, 4.0, 1.0
NB = int((HI - LO) / W)


def abf_config(F, inp=None):
    return (ctl.cv_d2(LO, HI, W) +
            "abf {\n  colvars d2\n  fullSamples 1\n  minSamples 0\n  shared on\n  sharedFreq %d\n  outputFreq %d\n  integrate off\n%s}\n" % (
                F, 4 * F, ("  inputPrefix %s\n" % inp) if inp else ""))


def abf_prior_scenario(case, wd):
    """a single, unshared ABF job whose output files the walkers of the group then read through inputPrefix"""
    pr = case["input"]
    s = ctl.header("same", extra="dt 1.0\ntemp 0.0")
    s += "emit atoms off\nmodule\nprefix %s\nconfig <<EOC\n%sEOC\ninit\n" % (
        os.path.join(wd, "prior"), ctl.cv_d2(LO, HI, W) + "abf {\n  colvars d2\n  fullSamples 1\n  minSamples 0\n  outputFreq 1000\n  integrate off\n}\n")
    for t in range(len(pr["hist"])):
        f = [[0.0, 0.0, 0.0] for _ in range(ctl.NATOMS)]
        f[2][2] = pr["s"][t]
        f[3][2] = -pr["s"][t]
        s += ctl.pos_line(d2=pr["hist"][t]) + "\n" + "fext " + " ".join(fnum(x) for q in f for x in q) + "\nstep\n"
    s += "endrun\n"
    return s


def read_multicol_1d(path):
    v = []
    for line in open(path):
        if line.startswith("#") or not line.strip():
            continue
        v.append(line.split()[1])
    return v


def parse_grid(state, key, n):
    m = re.search(r"\n" + key + r"\n(.*?)\n(\n|\})", state, re.S)
    if not m:
        return None
    v = m.group(1).split()
    return v if len(v) == n else None


def abf_walker_scenario(case, w, wd, t0=0, t1=None, load=False):
    """steps t0..t1 of walker w; with load=True the process starts from the state written by the previous segment
    (fresh process: step t0 is the repetition of the last step of that segment)"""
    F, T = case["F"], case["T"]
    t1 = T if t1 is None else t1
    prefix = os.path.join(wd, "w%d" % w)
    s = ctl.header("same", extra="dt 1.0\ntemp 0.0\nreplicas %s %d %d %d %d" % (case["rdir"], w, case["nw"], case["seed"] + w + 17 * t0, case["delay"]))
    inp = os.path.join(wd, "prior") if (case.get("input") and w in case["input"]["readers"]) else None
    s += "emit atoms off\nmodule\nprefix %s\nconfig <<EOC\n%sEOC\n" % (prefix, abf_config(F, inp))
    if load:
        s += "inprefix %s\n" % prefix
    s += "init\n"
    h = case["hist"][w]
    sv = case["s"][w]
    for t in range(t0, t1 + 1):
        if (w, t) in case["newruns"] and t > t0:
            s += "newrun\nstep\nmark repeat\n"
        if (w, t) in case.get("outputs", ()) and t > t0:
            # the run ends between two exchanges (output files written), the next run of the same job follows
            s += "endrun\nnewrun\nstep\nmark repeat\n"
        f = [[0.0, 0.0, 0.0] for _ in range(ctl.NATOMS)]
        f[2][2] = sv[t]
        f[3][2] = -sv[t]
        s += ctl.pos_line(d2=h[t]) + "\n" + "fext " + " ".join(fnum(x) for q in f for x in q) + "\nstep\n"
        if t > 0 and t % F == 0 and not (load and t == t0):
            s += "savestr\n"
    s += "endrun\n"
    return s


def run_abf(c, tier):
    n = 40 if tier == "quick" else 400
    cases = []
    for i in range(n):
        rng = c.rng.__class__(c.seed * 7717 + i)
        nw = rng.choice([2, 2, 3, 4])
        F = rng.choice([1, 2, 3, 5])
        T = F * rng.choice([4, 5, 6])
        cases.append(dict(idx=i, nw=nw, F=F, T=T, seed=rng.getrandbits(30), delay=rng.choice([0, 200, 2000]),
                          hist=[[ctl.dy(rng, LO - 1.0, HI + 0.75, 3) for _ in range(T + 1)] for _ in range(nw)],
                          s=[[ctl.dy(rng, -6, 6, 4) for _ in range(T + 1)] for _ in range(nw)],
                          restarts=(set([(rng.randrange(nw), F * rng.randint(1, T // F - 1))]) if rng.random() < 0.4 else set()), newruns=set((rng.randrange(nw), F * rng.randint(1, T // F - 1)) for _ in range(rng.choice([0, 1, 2])))))

    for case in cases:
        rng = c.rng.__class__(c.seed * 104723 + case["idx"])
        F, T, nw = case["F"], case["T"], case["nw"]
        case["outputs"] = set()
        if F > 1 and rng.random() < 0.5:
            for _ in range(rng.choice([1, 2])):
                w = rng.randrange(nw)
                t = rng.randint(2, T - 1)
                if t % F != 0 and (w, t) not in case["newruns"] and not any(v == w for (v, _t) in case["restarts"]):
                    case["outputs"].add((w, t))

        # a third of the groups start from data collected earlier by a single job (inputPrefix), read by every
        # walker or by walker 0 only: these data must appear exactly once in every walker's combined grids
        # and in no walker's own contribution
        case["input"] = None
        if rng.random() < 0.34:
            T0 = rng.randint(3, 12)
            case["input"] = dict(hist=[ctl.dy(rng, LO - 0.5, HI + 0.5, 3) for _ in range(T0 + 1)], s=[ctl.dy(rng, -6, 6, 4) for _ in range(T0 + 1)],
                                 readers=(list(range(nw)) if rng.random() < 0.7 else [0]))

    def do(case):
        wd = os.path.join(c.work, "abf%d" % case["idx"])
        os.makedirs(wd, exist_ok=True)
        case["rdir"] = wd
        if case["input"]:
            r0, ev0, sp0 = common.run_esim("plain", abf_prior_scenario(case, wd), wd, "prior", timeout=300)
            case["prior_ok"] = r0["complete"] and os.path.exists(os.path.join(wd, "prior.count")) and os.path.exists(os.path.join(wd, "prior.grad"))
            if not case["prior_ok"]:
                return []

        def one(w):
            rs = sorted(t for (v, t) in case["restarts"] if v == w)
            if not rs:
                return common.run_esim("plain", abf_walker_scenario(case, w, wd), wd, "w%d" % w, timeout=300)
            # this walker stops after an exchange step, and a fresh process resumes from its state file
            # while the other walkers keep running (they block at the next exchange)
            t = rs[0]
            r1, ev1, sp1 = common.run_esim("plain", abf_walker_scenario(case, w, wd, 0, t), wd, "w%d_a" % w, timeout=300)
            if not r1["complete"]:
                return r1, ev1, sp1
            r2, ev2, sp2 = common.run_esim("plain", abf_walker_scenario(case, w, wd, t, None, load=True), wd, "w%d_b" % w, timeout=300)
            return r2, ev1 + ev2, sp2
        return common.pmap(one, list(range(case["nw"])), jobs=case["nw"])

    # walkers of one case must run concurrently (blocking exchanges); cases run 4 at a time
    res = common.pmap(do, cases, jobs=4)
    for case, outs in zip(cases, res):
        c.count()
        nw, F, T = case["nw"], case["F"], case["T"]
        key = "abf:nw%d:F%d" % (nw, F) + (":after_walker_restart" if case["restarts"] else "")
        ic = [0] * NB
        isum = [0.0] * NB
        if case["input"]:
            key = "abf:with_input_data" + (":after_walker_restart" if case["restarts"] else "")
            if not case.get("prior_ok"):
                c.inconc("the job producing the input data did not complete")
                continue
            pr = case["input"]
            fc = read_multicol_1d(os.path.join(case["rdir"], "prior.count"))
            fg = read_multicol_1d(os.path.join(case["rdir"], "prior.grad"))
            pc = [0] * NB
            ps = [0.0] * NB
            for t in range(1, len(pr["hist"])):
                b = int(math.floor((pr["hist"][t] - LO) / W))
                if 0 <= b < NB:
                    pc[b] += 1
                    ps[b] += pr["s"][t]
            if len(fc) != NB or len(fg) != NB or [int(x) for x in fc] != pc or any(
                    abs(float(fg[b]) - (-ps[b] / pc[b] if pc[b] else 0.0)) > 1e-12 * (1 + abs(ps[b])) for b in range(NB)):
                c.inconc("input data files differ from what the producing job was fed: %s %s vs %s %s" % (fc, fg, pc, ps))
                continue
            ic = pc
            # the library reads the printed average and multiplies it by the count
            isum = [-float(fg[b]) * pc[b] for b in range(NB)]
        if any(not r["complete"] for r, ev, sp in outs):
            bad = [(r["sig"], r["timeout"], r["err"][-200:]) for r, ev, sp in outs if not r["complete"]]
            if any(b[0] for b in bad):
                c.violation("crash:" + key, "walker died: %s" % bad, [sp for r, ev, sp in outs])
            else:
                c.inconc("abf walkers incomplete: %s" % bad)
            continue
        # model: per walker per bin (count, sum) of own samples by step
        def own(w, upto):
            """own samples of walker w accumulated at steps 1..upto"""
            cnt = [0] * NB
            sm = [0.0] * NB
            for t in range(1, upto + 1):
                b = int(math.floor((case["hist"][w][t] - LO) / W))
                if 0 <= b < NB:
                    cnt[b] += 1
                    sm[b] += case["s"][w][t]
            return cnt, sm
        ok = True
        nex = 0
        for w, (r, ev, sp) in enumerate(outs):
            saves = [e for e in ev if e["ev"] == "savestr"]
            for e in saves:
                t = e["it"]   # exchange happened at the top of step t, before step t's own sample
                gc = list(ic)
                gs = list(isum)
                for v in range(nw):
                    cc, ss = own(v, t - 1)
                    for b in range(NB):
                        gc[b] += cc[b]
                        gs[b] += ss[b]
                # plus own sample of step t
                b = int(math.floor((case["hist"][w][t] - LO) / W))
                if 0 <= b < NB:
                    gc[b] += 1
                    gs[b] += case["s"][w][t]
                lc, ls = own(w, t - 1)
                st = e["state"]
                oc = parse_grid(st, "samples", NB)
                og = parse_grid(st, "gradient", NB)
                olc = parse_grid(st, "local_samples", NB)
                olg = parse_grid(st, "local_gradient", NB)
                if not (oc and og and olc and olg):
                    c.inconc("cannot parse shared ABF state")
                    ok = False
                    break
                if [int(x) for x in oc] != gc:
                    c.violation("global_counts:" + (key if not case["restarts"] else "abf:after_walker_restart"), "walker %d after exchange at step %d: stored %s, union of all walkers %s" % (w, t, oc, gc),
                                [o[2] for o in outs])
                    ok = False
                    break
                if [int(x) for x in olc] != lc:
                    c.violation("local_counts:" + (key if not case["restarts"] else "abf:after_walker_restart"), "walker %d at step %d: local %s, own contribution %s" % (w, t, olc, lc), [o[2] for o in outs])
                    ok = False
                    break
                for b in range(NB):
                    eg = -gs[b] / gc[b] if gc[b] else 0.0
                    el = -ls[b] / lc[b] if lc[b] else 0.0
                    if abs(float(og[b]) - eg) > 6e-14 * abs(eg) + 1e-13 or abs(float(olg[b]) - el) > 6e-14 * abs(el) + 1e-13:
                        c.violation("gradient:" + key, "walker %d step %d bin %d: global %s (expected %.15g), local %s (expected %.15g)" % (
                            w, t, b, og[b], eg, olg[b], el), [o[2] for o in outs])
                        ok = False
                        break
                if not ok:
                    break
                nex += 1
            if not ok:
                break
        if ok:
            c.bump("abf_exchanges_checked", nex)
            c.nontrivial("abf|nw%d|F%d|delay%d|newruns%d|restarts%d|%d" % (nw, F, case["delay"], len(case["newruns"]), len(case["restarts"]), case["idx"]))
            c.bump("abf_outputs_between_exchanges", len(case["outputs"]))
            c.bump("abf_walker_restarts", len(case["restarts"]))
            if case["input"]:
                c.bump("abf_groups_started_from_input_data", 1)
                c.bump("abf_input_samples_counted_once", sum(ic))
            c.sample({"part": "shared ABF", "walkers": nw, "sharedFreq": F, "steps": T, "max_delay_us": case["delay"],
                      "run_boundaries": sorted(case["newruns"]), "exchanges_checked": nex}, cap=4)


# ------------------------------------------------------------------------------------------------
# Part B: multiple-walker metadynamics
# ------------------------------------------------------------------------------------------------

def meta_config(rid, registry, freq, partial=False):
    return (ctl.cv_d2(LO, HI, 0.5) +
            "metadynamics {\n  name mtd\n  colvars d2\n  hillWeight 0.5\n  newHillFrequency 2\n  hillWidth 2.0\n"
            "  multipleReplicas on\n  replicaID %s\n  replicasRegistry %s\n  replicaUpdateFrequency %d\n  writePartialFreeEnergyFile %s\n}\n"
            % (rid, registry, freq, "on" if partial else "off"))


def hill_energy(hills, x):
    sig = 0.5 * 2.0 * 0.5
    e = 0.0
    et = 0.0
    for (c, w) in hills:
        q = (x - c) ** 2 / (sig * sig)
        g = w * math.exp(-0.5 * q)
        e += g
        if q <= 23.0:
            et += g
    return et, e


def run_meta(c, tier):
    ncases = 24 if tier == "quick" else 240
    for ci in range(ncases):
        rng = c.rng.__class__(c.seed * 3331 + ci)
        nw = rng.choice([2, 3])
        freq = rng.choice([2, 4])
        # state files every 6 update periods, or (half of the cases) never during the run: then peers' hills can only
        # arrive through the incrementally read hills files, and a read position lost to a partial record never heals
        rfreq = 6 * freq if ci % 2 == 0 else 100000
        fault_frac = 0.6 if ci % 4 < 2 else 0.3
        wd = os.path.join(c.work, "meta%d" % ci)
        shutil.rmtree(wd, ignore_errors=True)
        os.makedirs(wd)
        registry = os.path.join(wd, "registry.txt")
        walkers = []
        # some walkers also write the free energy of their own hills alone (writePartialFreeEnergyFile)
        partial = [(ci % 2 == 1 and (w + ci // 2) % 2 == 0) for w in range(nw)]
        prefixes = ["out"] * nw
        key = "meta:nw%d:freq%d:%s%s" % (nw, freq, "states" if rfreq < 100000 else "nostates", ":walker_restart_new_prefix" if ci % 3 == 2 else "")
        files = []
        try:
            for w in range(nw):
                sub = os.path.join(wd, "w%d" % w)
                wk = interactive.Walker("plain", sub, log="w%d" % w)
                hdr = ctl.header("off", extra="dt 1.0\ntemp 300.0\nreplicas %s %d %d 1 0\nkeeplog on" % (wd, w, nw))
                # the output prefix must be relative: replica file names are built as <cwd>/<prefix>...
                # state files every 6 update periods: in between, peers' hills arrive through the hills files
                ev = wk.send(hdr + "emit atoms off\nmodule\nprefix out\nrfreq %d\nconfig <<EOC\n%sEOC\ninit\n" % (
                    rfreq, meta_config("r%d" % w, registry, freq, partial[w])))
                cfg = [e for e in ev if e["ev"] == "config"]
                if cfg and cfg[0]["rc"] != 0:
                    raise RuntimeError("config rejected: %s" % cfg[0]["errs"])
                walkers.append(wk)
            T = 24 if tier == "quick" else 48
            own_hills = [[] for _ in range(nw)]        # (centre, weight) deposited by each walker, in order
            own_steps = [[] for _ in range(nw)]
            received = [dict() for _ in range(nw)]     # per walker: (replica, step) -> count
            tstep = [0] * nw
            fault_at = [0] * nw
            loglines = [[] for _ in range(nw)]
            damaged = {}
            # hostile schedule: random walker steps; between steps peer files may be truncated/restored
            order = []
            # in the cases with periodic state files, the walker to be restarted is stopped right after a step at which it
            # wrote its state (and restarted its hills file), having taken that step before its peers: the peers then hold
            # the offset 0 into an empty hills file, and nothing but the list file tells them about the new file names
            rwalker = rng.randrange(nw)
            for t in range(T + 1):
                ws = list(range(nw))
                rng.shuffle(ws)
                if ci % 3 == 2 and rfreq < 100000 and t == rfreq:
                    ws.remove(rwalker)
                    ws.insert(0, rwalker)
                order += ws
            faults_until = int(len(order) * fault_frac)
            if ci % 3 == 2 and rfreq < 100000:
                faults_until = min(faults_until, nw * (rfreq - 2 * freq))     # files whole around the restart
            # a walker stopped and restarted from its state file under another output prefix (job chaining): it publishes
            # new file names in its list file; its peers must follow
            restart_at = None
            if ci % 3 == 2:
                restart_at = (rwalker, faults_until + rng.randrange(2, 6))
            restarted = False
            last_x, repeat_x = {}, {}
            for n_, w in enumerate(order):
                if restart_at and not restarted and w == restart_at[0] and (
                        (rfreq >= 100000 and n_ >= restart_at[1]) or (rfreq < 100000 and tstep[w] == rfreq + 1)):
                    restarted = True
                    # (the last evaluation may have been a probe elsewhere: the state must carry the value of the last step)
                    ev_ = walkers[w].send((ctl.pos_line(d2=last_x[w]) + "\nevalc\nclearerr\n" if w in last_x else "") + "endrun\n")
                    er = [q for q in ev_ if q["ev"] == "endrun"]
                    if not er or er[0].get("rc"):
                        raise RuntimeError("endrun failed before the restart: %s" % (er[0].get("errs") if er else "no event"))
                    old_script = walkers[w].script_text()
                    walkers[w].close()
                    sub = os.path.join(wd, "w%d" % w)
                    wk = interactive.Walker("plain", sub, log="w%db" % w)
                    hdr = ctl.header("off", extra="dt 1.0\ntemp 300.0\nreplicas %s %d %d 1 0\nkeeplog on" % (wd, w, nw))
                    ev_ = wk.send(hdr + "emit atoms off\nmodule\nprefix out2\nrfreq %d\nconfig <<EOC\n%sEOC\ninprefix out\ninit\n" % (
                        rfreq, meta_config("r%d" % w, registry, freq, partial[w])))
                    prefixes[w] = "out2"
                    cfg = [e for e in ev_ if e["ev"] == "config"]
                    ini = [e for e in ev_ if e["ev"] == "init"]
                    if (cfg and cfg[0]["rc"] != 0) or (ini and (ini[0].get("rc") or ini[0].get("err"))):
                        raise RuntimeError("restart of walker %d rejected: %s %s" % (w, cfg[0].get("errs") if cfg else "", ini[0].get("errs") if ini else ""))
                    wk.sent.insert(0, "# first process of this walker:\n" + "".join("# " + l + "\n" for l in old_script.splitlines()))
                    walkers[w] = wk
                    repeat_x[w] = last_x.get(w)
                    # the restarted walker reads its peers' files from scratch: same allowance as after a file fault
                    fault_at[w] = tstep[w] + 1
                    c.bump("meta_walker_restarts_new_prefix")
                t = tstep[w]
                x = ctl.dy(rng, LO + 0.5, HI - 0.5, 4)
                if repeat_x.get(w) is not None:
                    x = repeat_x.pop(w)       # the first step of a restarted run repeats the last one, at the same coordinates
                # file-system fault: during THIS step the walker sees only a prefix (cut at a random byte) of
                # some of its peers' files, as if they were still being written; they are whole again right
                # after the step (the owners do not run in between, so nothing is lost)
                damaged = {}
                if n_ < faults_until and rng.random() < 0.5:
                    for v in range(nw):
                        if v == w:
                            continue
                        sub = os.path.join(wd, "w%d" % v)
                        for fn in sorted(os.listdir(sub)):
                            if (fn.endswith(".hills") or fn.endswith(".state") or fn.endswith(".files.txt")) and rng.random() < 0.6:
                                p = os.path.join(sub, fn)
                                data = open(p, "rb").read()
                                if len(data) == 0:
                                    continue
                                damaged[p] = data
                                with open(p, "wb") as f:
                                    f.write(data[:rng.randrange(0, len(data))])
                                c.bump("meta_truncations")
                if os.environ.get("C14_RECORD") and w == 0:
                    # snapshot of what walker 0 can see of its peers at this step (for a single-process reproduction)
                    snap = os.path.join(os.environ["C14_RECORD"], "case%d" % ci, "step%03d" % tstep[w])
                    os.makedirs(snap, exist_ok=True)
                    for v in range(nw):
                        sub = os.path.join(wd, "w%d" % v)
                        for fn in sorted(os.listdir(sub)):
                            if fn.endswith(".hills") or fn.endswith(".state") or fn.endswith(".files.txt"):
                                shutil.copy(os.path.join(sub, fn), os.path.join(snap, "w%d__%s" % (v, fn)))
                    shutil.copy(registry, os.path.join(snap, "registry.txt"))
                    with open(os.path.join(snap, "x.txt"), "w") as f:
                        f.write(repr(x))
                ev = walkers[w].send(ctl.pos_line(d2=x) + "\nstep\nclearerr\n")
                for p, data in damaged.items():
                    with open(p, "wb") as f:
                        f.write(data)
                st = [e for e in ev if e["ev"] == "step"]
                if not st:
                    raise RuntimeError("no step event")
                e = st[0]
                if e["err"]:
                    c.bump("meta_steps_with_error_bits_while_peer_files_damaged" if damaged else "meta_steps_with_error_bits_files_whole")
                    if not damaged and n_ > faults_until + 2 * nw * freq:
                        raise RuntimeError("error bits %s with all files whole: %s" % (e["err"], e.get("errs")))
                if e["rel"] > 0 and e["it"] % 2 == 0:
                    own_hills[w].append((x, 0.5))
                    own_steps[w].append(e["it"])
                for line in e.get("log", []):
                    if "eplica" in line or "ailed" in line or "rror" in line:
                        loglines[w].append("%d:%s" % (e["it"], line.strip()[:110]))
                    m = re.search(r'received a hill from replica "(\S+?)" at step (\d+)', line)
                    if m:
                        k = (m.group(1), int(m.group(2)))
                        received[w][k] = received[w].get(k, 0) + 1
                tstep[w] = e["it"] + 1          # (the first step of a restarted walker repeats its last one)
                last_x[w] = x
                c.bump("meta_steps")
                if damaged:
                    fault_at[w] = tstep[w]
                # bounded progress: if this walker has seen whole files for more than two update periods, it must hold
                # every peer hill older than three update periods (flush by the owner + one read + one retry)
                if tstep[w] - fault_at[w] > 2 * freq + 1 and tstep[w] > 4 * freq:
                    old_peer = [(v, hcw, st_) for v in range(nw) if v != w for hcw, st_ in zip(own_hills[v], own_steps[v])
                                if st_ <= tstep[v] - 1 - (3 * freq + 2)]
                    if old_peer:
                        v, hcw, st_ = rng.choice(old_peer)
                        xp = hcw[0]
                        evp = walkers[w].send(ctl.pos_line(d2=xp) + "\nevalc\nclearerr\n" + ctl.pos_line(d2=x) + "\n")
                        ep = [q for q in evp if q["ev"] == "evalc"][0]
                        oe = fl(ep["bias"]["mtd"]["e"])
                        xc = LO + (math.floor((xp - LO) / 0.5) + 0.5) * 0.5
                        lo_b = hi_b = 0.0
                        sig = 0.5 * 2.0 * 0.5
                        for u in range(nw):
                            for h2, s2 in zip(own_hills[u], own_steps[u]):
                                gc_ = h2[1] * math.exp(-0.5 * (xc - h2[0]) ** 2 / (sig * sig))
                                gp_ = h2[1] * math.exp(-0.5 * (xp - h2[0]) ** 2 / (sig * sig))
                                tc_ = gc_ if (xc - h2[0]) ** 2 / (sig * sig) <= 23.0 else 0.0
                                tp_ = gp_ if (xp - h2[0]) ** 2 / (sig * sig) <= 23.0 else 0.0
                                if u == w:
                                    lo_b += tc_
                                    hi_b += gc_
                                else:
                                    hi_b += max(gc_, gp_)
                                    if s2 <= tstep[u] - 1 - (3 * freq + 2):
                                        lo_b += min(tc_, tp_)
                        c.bump("meta_progress_probes")
                        if not (lo_b - 1e-10 <= oe <= hi_b + 1e-10):
                            if os.environ.get("C14_DEBUG"):
                                # residual of the observed bias over the all-tabulated union, on the grid of bin centres
                                for kbin in range(int((HI - LO) / 0.5)):
                                    xq = LO + (kbin + 0.5) * 0.5
                                    evq = walkers[w].send(ctl.pos_line(d2=xq) + "\nevalc\nclearerr\n")
                                    oq = fl([q for q in evq if q["ev"] == "evalc"][0]["bias"]["mtd"]["e"])
                                    parts = []
                                    for u in range(nw):
                                        su = sum(h2[1] * math.exp(-0.5 * (xq - h2[0]) ** 2 / (sig * sig)) for h2 in own_hills[u]
                                                 if (xq - h2[0]) ** 2 / (sig * sig) <= 23.0)
                                        parts.append(su)
                                    print("C14_DEBUG x=%7.3f obs=%.6f union=%.6f resid=%+.6f per-walker %s" % (xq, oq, sum(parts), oq - sum(parts), ["%.5f" % q for q in parts]))
                            for w2 in range(nw):
                                with open(os.path.join(wd, "walker%d.scn" % w2), "w") as f:
                                    f.write(walkers[w2].script_text())
                                with open(os.path.join(wd, "walker%d.log" % w2), "w") as f:
                                    f.write("\n".join(loglines[w2]) + "\n")
                            c.violation("union_bias:" + key + (":too_small" if oe < lo_b else ":too_large") + ":during_run",
                                        "walker %d at its step %d (last partial peer file seen at step %d) probe x=%s: bias %.15g, hill sum over "
                                        "the union in [%.15g, %.15g]; own steps %s; announced %s" % (
                                            w, tstep[w], fault_at[w], xp, oe, lo_b, hi_b, own_steps, [sorted((k, n) for k, n in r.items() if n > 1) for r in received]) + " LOG " + " | ".join(loglines[w][-40:]),
                                        [os.path.join(wd, "walker%d.scn" % w2) for w2 in range(nw)] + [os.path.join(wd, "walker%d.log" % w2) for w2 in range(nw)])
                            raise StopIteration
            # quiet phase: files whole; every walker takes 3*freq more steps in lock-step, then probes
            for rep in range(3 * freq + 2):
                for w in range(nw):
                    x = ctl.dy(rng, LO + 0.5, HI - 0.5, 4)
                    ev = walkers[w].send(ctl.pos_line(d2=x) + "\nstep\nclearerr\n")
                    e = [q for q in ev if q["ev"] == "step"][0]
                    if e["rel"] > 0 and e["it"] % 2 == 0:
                        own_hills[w].append((x, 0.5))
                        own_steps[w].append(e["it"])
                    for line in e.get("log", []):
                        m = re.search(r'received a hill from replica "(\S+?)" at step (\d+)', line)
                        if m:
                            k = (m.group(1), int(m.group(2)))
                            received[w][k] = received[w].get(k, 0) + 1
            files = [os.path.join(wd, "walker%d.scn" % w) for w in range(nw)]
            for w in range(nw):
                with open(files[w], "w") as f:
                    f.write(walkers[w].script_text())
            # (1) a hill announced twice is legitimate only after a failed read made the walker start over from the peer's
            #     state; double COUNTING is decided by (3) (upper bound of the band).  Counted for the evidence.
            c.bump("meta_hills_announced_more_than_once", sum(1 for w in range(nw) for k, n in received[w].items() if n > 1))
            # (2) what a walker holds for a peer was deposited by that peer
            bad = None
            for w in range(nw):
                for v in range(nw):
                    if v == w:
                        continue
                    got = sorted(s for (r, s) in received[w] if r == "r%d" % v)
                    if any(s not in own_steps[v] for s in got):
                        bad = "walker %d received from r%d steps %s not deposited (%s)" % (w, v, got, own_steps[v])
            if bad:
                c.violation("received_unknown_hill:" + key, bad, files)
                continue
            # (3) total bias = hill sum over the union, probed at several points.  Own hills are tabulated (bin centre);
            #     a peer's hill is tabulated or still analytic depending on when it arrived: both are accepted per hill;
            #     peers' hills younger than two update periods may legitimately be missing.
            ok = True
            last = [own_steps[v][-1] if own_steps[v] else 0 for v in range(nw)]
            sig = 0.5 * 2.0 * 0.5

            def g(cw, x):
                q = (x - cw[0]) ** 2 / (sig * sig)
                full = cw[1] * math.exp(-0.5 * q)
                return (full if q <= 23.0 else 0.0), full

            for w in range(nw):
                probes = [ctl.dy(rng, LO + 1.0, HI - 1.0, 4) for _ in range(3)]
                for v in range(nw):
                    if v != w and own_hills[v]:
                        probes.append(rng.choice(own_hills[v][:max(1, len(own_hills[v]) - 6)])[0])
                # beyond the grid the bias is the analytic sum of the hills near the boundary, the peers' like the walker's own
                probes += [HI + 0.25, LO - 0.375]
                for xp in probes:
                    ev = walkers[w].send(ctl.pos_line(d2=xp) + "\nevalc\n")
                    e = [q for q in ev if q["ev"] == "evalc"][0]
                    oe = fl(e["bias"]["mtd"]["e"])
                    xc = LO + (math.floor((xp - LO) / 0.5) + 0.5) * 0.5
                    lo = hi = 0.0
                    offgrid = not (LO <= xp < HI)
                    for v in range(nw):
                        for hcw, st_ in zip(own_hills[v], own_steps[v]):
                            tc, fc = g(hcw, xc)
                            if offgrid:
                                # (hills more than 3 hill widths from the boundary are left out by the library: < 1e-10 here)
                                tp, fp = g(hcw, xp)      # (a hill is cut off beyond 23 in the exponent's argument, as on the grid)
                                hi += fp
                                if v == w or st_ <= last[v] - 2 * freq - 2:
                                    lo += tp
                                continue
                            if v == w:
                                lo += tc
                                hi += fc
                            else:
                                tp, fp = g(hcw, xp)
                                hi += max(fc, fp)
                                if st_ <= last[v] - 2 * freq - 2:
                                    lo += min(tc, tp)
                    if not (lo - (1e-8 if offgrid else 1e-10) <= oe <= hi + (1e-8 if offgrid else 1e-10)):
                        c.violation("union_bias:" + key + (":off_grid" if offgrid else "") + (":too_small" if oe < lo else ":too_large"),
                                    "walker %d probe x=%s: bias %.15g, hill sum over the union in [%.15g, %.15g]; own steps %s; announced %s" % (
                                        w, xp, oe, lo, hi, own_steps, [sorted(r) for r in received]), files)
                        ok = False
                        break
                    c.bump("meta_probes_checked")
                if not ok:
                    break
            # (4) the free-energy file a walker writes at the end of its run is that of the bias it applies: on every grid point,
            #     PMF = max(E) - E with E the walker's total bias energy there (own and peers' hills; E itself was checked in (3)),
            #     whether or not the walker also writes the free energy of its own hills alone
            if ok:
                # hills received last are only tabulated at a later step, and the file holds what is tabulated: every walker first takes
                # 3 more update periods far outside the grid (the hills deposited there are more than 70 widths away from it)
                for rep in range(3 * freq + 2):
                    for w in range(nw):
                        walkers[w].send(ctl.pos_line(d2=40.0) + "\nstep\nclearerr\n")
                for w in range(nw):
                    # (an evaluation may still take in hills that peers published last: evaluate twice, keep the second pass, and only
                    # then end the run, which writes the file; no walker runs in between)
                    en = []
                    for pass_ in range(2):
                        en = []
                        for kbin in range(int((HI - LO) / 0.5)):
                            evq = walkers[w].send(ctl.pos_line(d2=LO + (kbin + 0.5) * 0.5) + "\nevalc\nclearerr\n")
                            en.append(fl([q for q in evq if q["ev"] == "evalc"][0]["bias"]["mtd"]["e"]))
                    ev = walkers[w].send("endrun\n")
                    fn = os.path.join(wd, "w%d" % w, prefixes[w] + ".pmf")
                    if not os.path.exists(fn):
                        c.bump("meta_pmf_files_missing")
                        continue
                    rows = [(float(l.split()[0]), float(l.split()[1])) for l in open(fn) if l.strip() and not l.startswith("#")]
                    if len(rows) != len(en) or any(abs(r[0] - (LO + (i + 0.5) * 0.5)) > 1e-9 for i, r in enumerate(rows)):
                        c.violation("pmf_file:grid_points", "walker %d: %s lists %d points (%s ...), the grid has %d bin centres" % (
                            w, os.path.basename(fn), len(rows), [r[0] for r in rows[:3]], len(en)), files + [fn])
                        ok = False
                        break
                    emax = max(en)
                    dev = max(abs((emax - e_) - pv) for e_, (_, pv) in zip(en, rows))
                    if dev > 1e-9 * max(1.0, emax):
                        k_ = max(range(len(rows)), key=lambda i: abs((emax - en[i]) - rows[i][1]))
                        c.violation("pmf_file:" + ("with_partial_file" if partial[w] else "combined_only") + ":nw%d" % nw,
                                    "walker %d: %s differs from the bias the walker applies: at x=%s the file has %.12g, max(E) - E = %.12g (E = %.12g, "
                                    "max E = %.12g); largest deviation %.3g over %d grid points; E - (max(file) - file) per point: %s; own hills %s" % (
                                        w, os.path.basename(fn), rows[k_][0], rows[k_][1], emax - en[k_], en[k_], emax, dev, len(rows),
                                        ["%.4f" % (en[i] - (max(r[1] for r in rows) - rows[i][1])) for i in range(len(rows))],
                                        [(round(h[0], 3), st_) for h, st_ in zip(own_hills[w], own_steps[w])][-6:]), files + [fn])
                        ok = False
                        break
                    c.bump("meta_pmf_files_checked")
                    if partial[w]:
                        c.bump("meta_pmf_files_checked_with_partial_file")
            if ok:
                c.bump("meta_hills_exchanged", sum(len(r) for r in received))
                c.nontrivial("meta|nw%d|freq%d|%d" % (nw, freq, ci))
                c.sample({"part": "multiple-walker metadynamics", "walkers": nw, "replicaUpdateFrequency": freq,
                          "hills_deposited": [len(h) for h in own_hills], "hills_received": [len(r) for r in received],
                          "first_interleaving": order[:12]}, cap=6)
        except StopIteration:
            pass
        except RuntimeError as ex:
            errs = ""
            for w in range(nw):
                p = os.path.join(wd, "w%d" % w, "w%d.stderr" % w)
                if os.path.exists(p):
                    errs += open(p, errors="replace").read()[-300:]
            files = []
            for w, wk in enumerate(walkers):
                p = os.path.join(wd, "walker%d.scn" % w)
                with open(p, "w") as f:
                    f.write(wk.script_text())
                files.append(p)
            if "died" in str(ex):
                c.violation("walker_crash:" + key, "%s %s" % (ex, errs), files)
            else:
                c.inconc("meta case %d: %s %s" % (ci, ex, errs[:200]))
        finally:
            for wk in walkers:
                wk.close(kill=True)
            c.count()


def run(tier, replay):
    c = common.Check("C14", tier)
    c.use_flavour("plain")
    c.rule = ("A: shared-ABF walker groups (2-4 processes, blocking exchanges over the simulated replica layer with seeded delays, "
              "run boundaries on exchange steps); every exchange of every walker compared with the union of unique dyadic samples. "
              "B: multiple-walker metadynamics groups driven in a seeded interleaving with peer files truncated at random bytes and "
              "restored; distinct = walker groups whose whole history was checked")
    c.assumptions = ["replica communication is simulated with FIFOs between processes (star topology through replica 0, as the code uses it)",
                     "bounded-progress form of 'eventually': after files are whole again and 3 further synchronisation periods, a walker must hold "
                     "every peer hill older than two periods"]
    common.vbuild.ensure("plain", tools=["esim"])
    run_abf(c, tier)
    run_meta(c, tier)
    floor = c.extra.get("abf_exchanges_checked", 0) >= (150 if tier == "quick" else 1500) and c.extra.get("meta_hills_exchanged", 0) >= 100 and c.extra.get("meta_truncations", 0) >= 50
    return c.finish(floor, "abf exchanges %s, meta hills exchanged %s" % (c.extra.get("abf_exchanges_checked"), c.extra.get("meta_hills_exchanged")))
