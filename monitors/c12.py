"""C12 - results do not depend on threading or on the order of evaluation.

(1) Determinism across schedules: one scenario is run with SMP off (reference), under the simulator's
    schedule controller (`perm`: all work items of each parallel region executed serially in a seeded
    permutation with seeded thread ids; `threads`: on std::threads with a seeded item->thread map and
    seeded yields) and through the real OpenMP loops with several thread counts.  Every engine-visible
    event and the final state must be bitwise equal to the reference (OPES kernel sums with `smp
    inner_loop`-style reductions are compared with a rounding bound instead).
(2) Races: the same scenarios under ThreadSanitizer (clang + libomp + Archer for the OpenMP loops;
    plain pthreads for `threads` mode).  Every distinct report (pair of outermost Colvars frames) is a
    violation key.
"""
import glob
import itertools
import os
import re

import common
import corpus
from common import fnum, fl

ARCHER = "/usr/lib/llvm-14/lib/libarcher.so"


def build_scenario_parts(rng, nvars, opes=False, script=False, errors=False):
    """returns (header, config, frames)"""
    sysm = corpus.make_system(rng, natoms=40)
    pool = list(range(1, 39))
    cvs = []
    pool_abf = rng.sample(range(1, 39), 8)
    kinds = ["distance", "angle", "dihedral", "gyration", "coordNum", "distanceZ", "rmsd", "inertia", "hBond", "dipoleAngle"]
    text = ""
    # every component type appears at least twice, so that two work items of the same type can
    # run concurrently (a static buffer inside one calc_value() needs that to be observable)
    slots = rng.sample(kinds, nvars) * 2
    rng.shuffle(slots)
    for i in range(nvars):
        if len(pool) < 22:
            pool = list(range(1, 39))
        ct = [slots[2 * i], slots[2 * i + 1]]
        if i == 0:
            # three components: the first one is switched off (cvcflags) for part of the run, so that the list of
            # components and the list of active components differ
            ct.append(rng.choice(["distance", "angle", "gyration", "distanceZ"]))
        extra = ["width 1.0", "lowerBoundary -50", "upperBoundary 50"]
        # two variables follow their own, different, coarse time steps: the set of active work items
        # changes from step to step while its size often stays the same
        if i >= nvars - 2:
            extra.append("timeStepFactor %d" % (2 if i == nvars - 2 else 3))
        cv = corpus.make_combo_colvar(rng, sysm, pool, "v%d" % i, ct, extra)
        cvs.append(cv)
        text += cv["text"] + "\n"
    biases = ""
    for i in range(nvars):
        tsf = "" if i < nvars - 2 else "  timeStepFactor %d\n" % (2 if i == nvars - 2 else 3)
        biases += "harmonic {\n  name h%d\n  colvars v%d\n  centers %s\n  forceConstant %s\n%s}\n" % (
            i, i, fnum(rng.uniform(-3, 3)), fnum(rng.uniform(0.5, 5)), tsf)
    biases += "metadynamics {\n  name m1\n  colvars v0 v1\n  hillWeight 0.3\n  newHillFrequency 2\n  hillWidth 2.0\n  useGrids off\n}\n"
    # metadynamics on grids whose hills are still pending when the final state is written (they are tabulated then, outside the
    # per-step loop over biases, on a 100 x 100 grid)
    biases += "metadynamics {\n  name m2\n  colvars v1 v2\n  hillWeight 0.2\n  newHillFrequency 1\n  gridsUpdateFrequency 1000\n  hillWidth 3.0\n}\n"
    biases += "histogram {\n  name hist\n  colvars v2\n}\n"
    # one adaptive linear bias on two variables: it draws random numbers to choose which coupling constant to update; it is
    # the only consumer of the generator, so the numbers it sees must not depend on the thread that happens to run it
    biases += "alb {\n  name al\n  colvars v2 v3\n  centers %s %s\n  updateFrequency 4\n  forceRange 1.0 2.0\n  rateMax 0.5 0.5\n}\n" % (
        fnum(rng.uniform(-3, 3)), fnum(rng.uniform(-3, 3)))
    biases += "harmonicWalls {\n  name w1\n  colvars v3\n  lowerWalls -1.0\n  upperWalls 1.0\n  forceConstant 2.0\n}\n"
    if not opes and not script:
        # two two-dimensional ABF biases with projected ABF: each integrates its free-energy surface (conjugate gradient on
        # its own grid) inside its update, i.e. inside the parallel loop over biases
        for k in range(4):
            a, b_ = pool_abf[2 * k], pool_abf[2 * k + 1]
            text += ("colvar {\n  name p%d\n  width 1.0\n  lowerBoundary 0.0\n  upperBoundary 14.0\n  distance {\n    group1 { atomNumbers %d }\n"
                     "    group2 { atomNumbers %d }\n  }\n}\n" % (k, a, b_))
        biases += "abf {\n  name pa\n  colvars p0 p1\n  fullSamples 1\n  pABFintegrateFreq 1\n}\n"
        biases += "abf {\n  name pb\n  colvars p2 p3\n  fullSamples 1\n  pABFintegrateFreq 1\n}\n"
    # two extended-Lagrangian variables with the default Langevin thermostat: both draw their random kicks from the engine's
    # single stream, in the order in which the variables are listed
    xa = rng.sample(range(1, 39), 4)
    for k in range(2):
        text += ("colvar {\n  name x%d\n  extendedLagrangian on\n  extendedFluctuation 0.2\n  extendedTimeConstant 20.0\n  outputEnergy on\n"
                 "  distance {\n    group1 { atomNumbers %d }\n    group2 { atomNumbers %d }\n  }\n}\n" % (k, xa[2 * k], xa[2 * k + 1]))
    biases += "harmonic {\n  name hx\n  colvars x0\n  centers 5.0\n  forceConstant 1.5\n}\n"
    if opes:
        biases += "opes_metad {\n  name op\n  colvars v1\n  newHillFrequency 2\n  barrier 5.0\n  gaussianSigma 0.5\n}\n"
    glob_opts = "colvarsTrajFrequency 1\n"
    if script:
        glob_opts += "scriptedColvarForces on\nscriptingAfterBiases off\n"
    frames = []
    pos = sysm["pos"]
    fexts = []
    for t in range(13):
        pos = [[x + rng.uniform(-0.12, 0.12) for x in p] for p in pos]
        frames.append(pos)
        fexts.append([[rng.uniform(-3, 3) for _ in range(3)] for _ in pos])
    sysm["_fexts"] = fexts
    return sysm, glob_opts + text + biases, frames


def scenario(sysm, cfg, frames, smp, prefix, script):
    s = corpus.scenario_header(sysm, tfmode="same", extra="dt 1.0\ntemp 300.0\nsmp %s\nkeepsched on" % smp)
    if script:
        s += "forcecb v0 0.125\n"
    s += "module\nprefix %s\nconfig <<EOC\n%sEOC\ninit\n" % (prefix, cfg)
    for k, f in enumerate(frames):
        if k == 4:
            s += 'script ["cv","colvar","v0","cvcflags","0 1 1"]\n'
        if k == 9:
            s += 'script ["cv","colvar","v0","cvcflags","1 1 1"]\n'
        s += corpus.pos_line(f) + "\n" + corpus.fext_line(sysm["_fexts"][k]) + "\nstep\n"
    s += "savestr\nendrun\n"
    return s


CMP_FIELDS = ("it", "en", "cv", "bias", "af", "err", "nact")


def digest(ev):
    """the comparable part of an event log"""
    out = []
    for e in ev:
        if e["ev"] == "step":
            out.append(tuple(repr(e.get(k)) for k in CMP_FIELDS))
        elif e["ev"] == "savestr":
            out.append(("state", e["state"]))
    return out


def first_diff(a, b):
    for i, (x, y) in enumerate(zip(a, b)):
        if x != y:
            for k, (p, q) in enumerate(zip(x, y)):
                if p != q:
                    fld = CMP_FIELDS[k] if x[0] != "state" else "state"
                    # locate first differing character
                    j = next((n for n in range(min(len(p), len(q))) if p[n] != q[n]), 0)
                    return "event %d field %s: ...%s... vs ...%s..." % (i, fld, p[max(0, j - 40):j + 40], q[max(0, j - 40):j + 40])
    if len(a) != len(b):
        return "different number of events (%d vs %d)" % (len(a), len(b))
    return None


def tsan_reports(logprefix):
    reps = []
    for f in glob.glob(logprefix + "*"):
        txt = open(f, errors="replace").read()
        for block in txt.split("WARNING: ThreadSanitizer")[1:]:
            frames = re.findall(r"#\d+ (\S+) (/repo/src/\S+?):\d+", block)
            kind = block.splitlines()[0].strip(": ")[:40]
            fr = [f[0] for f in frames]
            key = "%s:%s" % (kind.split("(")[0].strip().replace(" ", "_"), "|".join(sorted(set(fr[:1] + fr[-1:]))) if fr else "?")
            reps.append((key, block[:1500]))
    return reps


def run(tier, replay):
    c = common.Check("C12", tier)
    c.rule = ("one scenario (>=6 two-component variables, >=8 biases incl. metadynamics, histogram, optional OPES and the native "
              "scripted-force task) executed under: SMP off; seeded permutations x thread-id maps of every parallel region; "
              "std::thread schedules; real OpenMP loops with 1..16 threads; all compared bitwise; plus ThreadSanitizer runs. "
              "distinct = distinct schedule strings actually executed (item order @ thread id, per parallel region)")
    c.assumptions = ["bitwise identity is required because every work item writes its own storage and collection is serial",
                     "ThreadSanitizer sees OpenMP synchronisation through Archer (OMPT); gcc/libgomp TSan is not used (false races)"]
    for f in ("plain", "tsan"):
        common.vbuild.ensure(f, tools=["esim"])
        c.use_flavour(f)
    nscen = 3 if tier == "quick" else 10
    nperm = 40 if tier == "quick" else 400
    nthr = 12 if tier == "quick" else 120
    scheds_seen = set()
    for si in range(nscen):
        rng = c.rng.__class__(c.seed * 977 + si)
        opes = (si % 3 == 1)
        script = (si % 3 == 2)
        sysm, cfg, frames = build_scenario_parts(rng, 6, opes=opes, script=script)
        wd = os.path.join(c.work, "s%d" % si)
        runs = [("none", {}, "plain")]
        for k in range(nperm):
            runs.append(("perm %d %d" % (rng.choice([2, 3, 4, 8, 16]), rng.getrandbits(40)), {}, "plain"))
        for k in range(nthr):
            runs.append(("threads %d %d" % (rng.choice([2, 3, 4, 8, 16]), rng.getrandbits(40)), {}, "plain"))
        for nt in (1, 2, 3, 4, 8, 16):
            runs.append(("omp", {"OMP_NUM_THREADS": str(nt)}, "plain"))
        # exhaustive permutations of a reduced scenario are covered by seeds: with 6 bias items >= 720 orders exist

        def do(item):
            idx, (smp, env, flav) = item
            name = "r%d" % idx
            text = scenario(sysm, cfg, frames, smp, os.path.join(wd, name), script)
            e = dict(env)
            r, ev, sp = common.run_esim(flav, text, wd, name, timeout=600, env=e)
            traj = ""
            tp = os.path.join(wd, name + ".colvars.traj")
            if os.path.exists(tp):
                traj = open(tp).read()
            return r, ev, sp, traj

        res = common.pmap(do, list(enumerate(runs)))
        r0, ev0, sp0, traj0 = res[0]
        if not r0["complete"] or any(e.get("rc") for e in ev0 if e["ev"] == "config"):
            c.inconc("reference run failed: %s" % ([e.get("errs") for e in ev0 if e["ev"] == "config"] or r0["err"][-300:]))
            continue
        d0 = digest(ev0)
        for (smp, env, flav), (r, ev, sp, traj) in zip(runs[1:], res[1:]):
            c.count()
            mode = smp.split()[0]
            tag = "%s:%s" % (mode, "opes" if opes else ("script" if script else "base"))
            if not r["complete"]:
                c.violation("crash:%s" % tag, "smp %s %s: signal %s: %s" % (smp, env, r["sig"], r["err"][-400:]), [sp, sp0])
                continue
            for e in ev:
                for s in e.get("sched", []):
                    scheds_seen.add(s)
            d = first_diff(d0, digest(ev))
            if d is None and traj != traj0:
                d = "trajectory files differ"
            if d:
                c.violation("differs_from_serial:%s" % tag, "smp %s %s: %s" % (smp, env, d), [sp, sp0])
                continue
            c.bump("schedules_equal_to_serial")
            c.note_set("modes_run", mode + ("/" + env["OMP_NUM_THREADS"] if env else ""))
        c.sample({"scenario": si, "opes": opes, "scripted_force_task": script, "runs": len(runs),
                  "example_schedules": sorted(scheds_seen)[:3]})
        # ---- races --------------------------------------------------------------------------
        trs = []
        nrep = 2 if tier == "quick" else 10
        for k in range(nrep):
            for nt in (2, 4, 8):
                trs.append(("omp", {"OMP_NUM_THREADS": str(nt)}))
            trs.append(("threads %d %d" % (rng.choice([2, 4, 8]), rng.getrandbits(40)), {}))

        def do_tsan(item):
            idx, (smp, env) = item
            name = "t%d" % idx
            lp = os.path.join(wd, name + ".tsan")
            e = dict(env)
            e["OMP_TOOL_LIBRARIES"] = ARCHER
            e["TSAN_OPTIONS"] = "ignore_noninstrumented_modules=1:halt_on_error=0:report_signal_unsafe=0:log_path=" + lp
            e["ARCHER_OPTIONS"] = "verbose=0"
            text = scenario(sysm, cfg, frames, smp, os.path.join(wd, name), script)
            r, ev, sp = common.run_esim("tsan", text, wd, name, timeout=900, env=e)
            return r, ev, sp, tsan_reports(lp)

        tres = common.pmap(do_tsan, list(enumerate(trs)), jobs=4)
        for (smp, env), (r, ev, sp, reps) in zip(trs, tres):
            c.count()
            mode = smp.split()[0]
            if not r["complete"]:
                c.inconc("tsan run incomplete (%s): %s" % (smp, r["err"][-300:]))
                continue
            c.bump("tsan_runs_completed")
            if first_diff(d0, digest(ev)):
                c.violation("differs_from_serial:tsan:%s" % mode, "tsan run differs from serial reference", [sp, sp0])
            for key, block in reps:
                c.violation("race:%s:%s" % (mode, key), block, [sp])
    for s in scheds_seen:
        c.nontrivial(s)
    c.extra["distinct_schedule_strings"] = len(scheds_seen)
    floor = c.extra.get("schedules_equal_to_serial", 0) >= (100 if tier == "quick" else 1000) and c.extra.get("tsan_runs_completed", 0) >= 6
    return c.finish(floor, "%s schedules compared, %s tsan runs" % (c.extra.get("schedules_equal_to_serial"), c.extra.get("tsan_runs_completed")))
