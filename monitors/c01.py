"""C01 - applied atomic forces are minus the gradient of the reported energy.

Oracle: engine-side finite differences (esim `fdsweep`): for every coordinate of every engine atom,
E(x +- h e_k), E(x +- h/2 e_k) through the real calc(), Richardson-extrapolated, against the force
the engine received.  Purity guard: base point re-evaluated after the sweep must be bit-identical.
"""
import json
import math
import re
import os

import common
import corpus
from common import fnum, fl

H = 1.0e-4

BIASES_SCALAR = ["harmonic", "walls_lower", "walls_upper", "walls_both", "linear", "abmd", "meta", "opes"]
BIASES_NONSCALAR = {"vec3": ["harmonic", "linear", "meta"], "unit3": ["harmonic", "meta"], "quat": ["harmonic", "meta"],
                    "vector": ["harmonic", "linear", "histrest"]}


def bias_text(rng, cv, kind, val):
    """val: current value of the colvar (list of floats) from pass 1"""
    n = cv["name"]
    vt = cv["vtype"]
    if kind == "harmonic":
        if vt == "scalar":
            c = fnum(val[0] + rng.uniform(-1.0, 1.0) * max(1.0, abs(val[0]) * 0.2))
        elif vt in ("vec3", "vector"):
            c = corpus.vec_str([v + rng.uniform(-1, 1) for v in val])
        elif vt == "unit3":
            c = corpus.vec_str(corpus.random_unit(rng))
        else:
            c = corpus.vec_str(corpus.random_quaternion(rng))
        return "harmonic {\n  colvars %s\n  centers %s\n  forceConstant %s\n}\n" % (n, c, fnum(rng.uniform(0.5, 20.0)))
    if kind.startswith("walls"):
        w = max(0.05, abs(val[0]) * 0.05)
        lines = ["harmonicWalls {", "  colvars " + n]
        if kind in ("walls_lower", "walls_both"):
            lines.append("  lowerWalls %s" % fnum(val[0] + (w if kind == "walls_lower" else -3 * w)))
        if kind in ("walls_upper", "walls_both"):
            lines.append("  upperWalls %s" % fnum(val[0] - (w if kind == "walls_upper" else -w * 0.0) + (0 if kind == "walls_upper" else -w)))
        if kind == "walls_both":
            lines.append("  lowerWallConstant %s" % fnum(rng.uniform(1, 10)))
            lines.append("  upperWallConstant %s" % fnum(rng.uniform(1, 10)))
        else:
            lines.append("  forceConstant %s" % fnum(rng.uniform(1, 10)))
        lines.append("}")
        return "\n".join(lines) + "\n"
    if kind == "linear":
        if vt == "scalar":
            c = fnum(val[0])
        else:
            c = corpus.vec_str(val)
        return "linear {\n  colvars %s\n  centers %s\n  forceConstant %s\n}\n" % (n, c, fnum(rng.uniform(-5, 5) or 1.0))
    if kind == "abmd":
        # ratchet reference is set at the first step to the current value; moving the system away
        # from it (toward decreasing values with `decreasing off`) leaves the reference frozen
        return "abmd {\n  colvars %s\n  forceConstant %s\n  stoppingValue %s\n}\n" % (
            n, fnum(rng.uniform(1, 10)), fnum(val[0] + 50.0))
    if kind == "meta":
        return ("metadynamics {\n  colvars %s\n  hillWeight %s\n  newHillFrequency 2\n  hillWidth %s\n  useGrids off\n}\n"
                % (n, fnum(rng.uniform(0.2, 2.0)), fnum(rng.uniform(1.0, 3.0))))
    if kind == "opes":
        return ("opes_metad {\n  colvars %s\n  newHillFrequency 2\n  barrier %s\n  gaussianSigma %s\n  fixedGaussianSigma on\n}\n"
                % (n, fnum(rng.uniform(3, 20)), fnum(max(0.1, abs(val[0]) * 0.1))))
    if kind == "histrest":
        nb = 6
        lo = min(val) - 1.0
        hi = max(val) + 1.0
        ref = [rng.uniform(0.1, 1.0) for _ in range(nb)]
        s = sum(ref) * (hi - lo) / nb
        ref = [r / s for r in ref]
        return ("histogramRestraint {\n  colvars %s\n  lowerBoundary %s\n  upperBoundary %s\n  width %s\n"
                "  refHistogram %s\n  forceConstant %s\n}\n"
                % (n, fnum(lo), fnum(hi), fnum((hi - lo) / nb), " ".join(fnum(r) for r in ref), fnum(rng.uniform(1, 20))))
    raise ValueError(kind)


def gen_case(rng, idx, ctype, fit, bias, cell, combo=None, composite=False, opts=None):
    """composite: a template of corpus.C01_EXTRA_COMPONENTS (the `fit` slot of the key then names the template variant);
    opts: explicit template options (then `fit` is only the label used in the key)"""
    sysm = corpus.make_system(rng, natoms=26, cell=cell)
    pool = list(range(1, sysm["natoms"] - 1))  # the last two atoms are never used by any group
    explicit = opts is not None
    opts = dict(opts or {})
    if fit != "none" and not explicit:
        opts["fit"] = fit
    extra = ["width %s" % fnum(rng.choice([0.5, 1.0, 2.0]))]
    if combo:
        cv = corpus.make_combo_colvar(rng, sysm, pool, "cv1", combo, extra)
    elif composite:
        coeff = exp = None
        r = rng.random()
        if r < 0.3:
            coeff = round(rng.uniform(-3, 3), 3) or 2.0
        if r < 0.15 and ctype != "linearCombination":   # linearCombination may be vector-valued
            exp = rng.choice([2, 3])
        cv = corpus.make_c01_colvar(rng, sysm, pool, "cv1", ctype, opts, extra, coeff=coeff, exp=exp)
        fit = cv.get("variant") or "none"
        if callable(bias):
            bias = bias(cv["vtype"])
    else:
        coeff = exp = None
        r = rng.random()
        # a coefficient on a unit-vector or quaternion component gives a value off its manifold
        # (not a meaningful variable): coefficients only for scalar and plain vector components; none on a periodic
        # distanceZ (the variable would no longer have the period of its component)
        if r < 0.3 and ctype not in ("distanceDir", "orientation") and not opts.get("period"):
            coeff = round(rng.uniform(-3, 3), 3) or 2.0
        cv = corpus.make_colvar(rng, sysm, pool, "cv1", ctype, opts, extra, coeff=coeff,
                                exp=(rng.choice([2, 3]) if (r < 0.15 and not opts.get("period") and ctype not in ("distanceVec", "distanceDir", "orientation", "distancePairs", "cartesian")) else None))
    flags = None
    if combo and rng.random() < 0.5:
        # some components switched off at run time (cvcflags): the variable, its energy and its forces are those of the
        # remaining components; patterns with an active component after an inactive one included
        n = len(combo)
        while True:
            flags = [rng.choice([0, 1]) for _ in range(n)]
            if 0 < sum(flags) < n:
                break
        fit = "cvcflags_" + "".join(str(f) for f in flags)
    return dict(idx=idx, sysm=sysm, cv=cv, bias=bias, ctype=cv["ctype"], fit=fit, cell=cell,
                pos2=jitter(rng, sysm["pos"], 0.25), cvcflags=flags)


def flags_line(case):
    if not case.get("cvcflags"):
        return ""
    return "script %s\n" % json.dumps(["cv", "colvar", "cv1", "cvcflags", " ".join(str(f) for f in case["cvcflags"])])


def scenario_pass0(case):
    """preliminary run of a composite component: its sub-components as separate variables at the base geometry"""
    s = corpus.scenario_header(case["sysm"])
    s += "module\nconfig <<EOC\n" + case["cv"]["prep"]["text"] + "\nEOC\ninit\n"
    s += corpus.pos_line(case["sysm"]["pos"]) + "\nstep\n"
    return s


def write_files(case, wd):
    """reference frames, path file, network parameters ... next to the scenario; returns their paths"""
    os.makedirs(wd, exist_ok=True)
    out = []
    for fn, content in (case["cv"].get("files") or {}).items():
        fp = os.path.join(wd, fn)
        with open(fp, "w") as fh:
            fh.write(content)
        out.append(fp)
    return out


def scenario_pass1(case):
    s = corpus.scenario_header(case["sysm"])
    s += "module\nconfig <<EOC\n" + case["cv"]["text"] + "\nEOC\ninit\n" + flags_line(case)
    s += corpus.pos_line(case["sysm"]["pos"]) + "\nstep\n"
    s += corpus.pos_line(case["pos2"]) + "\nstep\n"
    return s


def jitter(rng, pos, amp):
    return [[x + rng.uniform(-amp, amp) for x in p] for p in pos]


def scenario_pass2(rng, case, val):
    bt = bias_text(rng, case["cv"], case["bias"], val)
    case["bias_text"] = bt
    s = corpus.scenario_header(case["sysm"], extra="temp 300.0\ndt 1.0")
    s += "emit cv off\nemit bias off\n"
    s += "module\nconfig <<EOC\n" + case["cv"]["text"] + "\n" + bt + "EOC\ninit\n" + flags_line(case)
    pos = case["sysm"]["pos"]
    if case["bias"] in ("meta", "opes"):
        # deposit a few hills/kernels around the base geometry, then sweep at an odd step
        # metadynamics adds no hill at a repeated ("continuing") step; OPES has no such rule, so its kernels are
        # frozen by sweeping at an odd step (newHillFrequency 2)
        restart = case["bias"] == "meta" and rng.random() < 0.5
        nst = 7 if case["bias"] == "meta" else 8
        for k in range(nst):
            # (a restarted run checks that the value of its first step is the one in the state file: last step at the base geometry)
            s += corpus.pos_line(pos if (restart and k == nst - 1) else jitter(rng, pos, 0.15)) + "\nstep\n"
        if restart:
            # the hills were deposited by an earlier run with another hillWidth: stop, restart from the state file with a new
            # width (every hill carries its own), sweep at the repeated step
            m = re.search(r"hillWidth (\S+)", bt)
            w2 = fnum(float(m.group(1)) * rng.choice([0.5, 1.5, 2.0]))
            bt2 = bt.replace("hillWidth " + m.group(1), "hillWidth " + w2)
            case["bias_text"] = bt + "# restarted with:\n" + bt2
            s += "save c01st.colvars.state\ndelete\n"
            s += corpus.scenario_header(case["sysm"], extra="temp 300.0\ndt 1.0") + "emit cv off\nemit bias off\n"
            s += "module\nconfig <<EOC\n" + case["cv"]["text"] + "\n" + bt2 + "EOC\ninprefix c01st\ninit\n" + flags_line(case)
            case["bias"] = "meta_restart"
        s += corpus.pos_line(pos) + "\n"
        s += "fdsweep %s cont\n" % fnum(H)
        if case["bias"] == "opes":
            s += "savestr\n"
    elif case["bias"] == "abmd":
        # ratchet: visit the geometry with the larger value first (the reference follows it), then
        # sweep at the geometry with the smaller value, where the reference is frozen behind it
        hi, lo = (pos, case["pos2"]) if case["val"][0] > case["val2"][0] else (case["pos2"], pos)
        s += corpus.pos_line(hi) + "\nstep\n"
        s += corpus.pos_line(lo) + "\nstep\n"
        s += "fdsweep %s cont\n" % fnum(H)
    else:
        s += corpus.pos_line(pos) + "\nstep\n"
        s += "fdsweep %s cont\n" % fnum(H)
    return s


def opes_shift_ratio(case):
    """OPES kernels are truncated and shifted, G(r) = h (exp(-r^2/2) - vc), vc = exp(-rc^2/2), r < rc, but the code (as PLUMED
    does) accumulates -G(r) r/sigma as their derivative instead of -h exp(-r^2/2) r/sigma.  For a one-variable bias the applied
    force and the energy gradient then differ by one common factor on every coordinate,
        rho = sum_k h_k e_k d_k/s_k  /  sum_k h_k (e_k - vc) d_k/s_k,   d_k = (x - c_k)/s_k, e_k = exp(-d_k^2/2),
    computed here from the kernels in the state written right after the sweep.  Returns the list of candidate rho (periodic
    image conventions), or [] when the state is not available."""
    st = case.get("_state") or ""
    m = re.search(r"kernel_cutoff\s+(\S+)", st)
    mx = re.search(r"colvar \{\s*name \S+\s*x\s+(\S+)", st)
    hills = re.findall(r"\{ \d+ (\S+) (\S+) (\S+) \}", st)
    if not (m and mx and hills):
        return []
    rc = float(m.group(1))
    x = float(mx.group(1))
    vc = math.exp(-0.5 * rc * rc)
    out = []
    per = case["cv"].get("period")
    for wrap in ([False, True] if per else [False]):
        A = B = 0.0
        for cs, ss, hs in hills:
            ck, sk, hk = float(cs), float(ss), float(hs)
            dx = x - ck
            if wrap:
                dx -= per * math.floor(dx / per + 0.5)
            d = dx / sk
            if d * d >= rc * rc:
                continue
            e = math.exp(-0.5 * d * d)
            A += hk * e * d / sk
            B += hk * (e - vc) * d / sk
        if B != 0.0:
            out.append(A / B)
    return out


def check_sweep(c, case, ev, files):
    """returns (n_ok, n_inconc)"""
    key_cfg = "%s:%s:%s" % (case["ctype"], case["fit"], case["bias"])
    e0, e1 = fl(ev["e0"]), fl(ev["e1"])
    f0, f1 = ev["f0"], ev["f1"]
    if (ev.get("err0") or ev.get("err")) and any(m in (str(ev.get("errs")) + str(case.get("_errs", ""))) for m in (
            "both walls must be provided", "linear biases cannot be applied to periodic variables")):
        # a one-sided wall or a linear bias on a periodic variable is refused by the library (by design): not a case
        c.bump("bias_refused_for_periodic_variable")
        return 0, 1
    if ev.get("err0") or ev.get("err"):
        c.inconc("error bits during sweep: " + key_cfg + " " + str(ev.get("errs"))[:300] + str(case.get("_errs", ""))[:300])
        return 0, 1
    if e0 != e1 or f0 != f1:
        c.inconc("impure (stateful) evaluation: " + key_cfg)
        c.bump("impure_cases")
        return 0, 1
    if not math.isfinite(e0):
        c.violation("nonfinite_energy:" + key_cfg, "energy %r" % e0, files, payload=case.get("bias_text"))
        return 0, 0
    fscale = max([abs(fl(x)) for f in f0 for x in f] + [1e-6])
    used = set(a - 1 for comp in case["cv"]["comps"] for a in comp["atoms"])
    for comp in case["cv"]["comps"]:
        pass
    n_ok = n_inc = 0
    shift_rows = 0
    worst = 0.0
    for row in ev["d"]:
        k, d = row[0], row[1]
        ep, em, ep2, em2 = [fl(x) for x in row[2:6]]
        F = fl(f0[k][d])
        gh = (ep - em) / (2 * H)
        gh2 = (ep2 - em2) / H
        g = (4.0 * gh2 - gh) / 3.0
        spread = abs(gh2 - gh)
        rnd = 400.0 * 2.2e-16 * max(abs(e0), abs(ep), abs(em), 1.0) / H
        # even part of the same five samples: the second differences at h and h/2 must agree as well.  An energy that the
        # stencil cannot resolve (e.g. hills far narrower than the change of a cubed angle over h: E(x +- h) = 0 exactly on
        # both sides of a base point with E > 0) passes the odd-part test with gh = gh2 = 0 although it is not smooth on
        # the scale of h; such a coordinate is inconclusive, like any other non-smooth point
        c2h = (ep + em - 2.0 * e0) / (H * H)
        c2h2 = (ep2 + em2 - 2.0 * e0) / (0.25 * H * H)
        spread2 = abs(c2h - c2h2) * H
        # one-sided potentials (walls, the ABMD ratchet, truncated hills) are exactly zero beyond their boundary, where the
        # second derivative jumps: samples that are exactly zero next to samples that are not mean that the boundary lies
        # inside the stencil.  (Seen with ABMD on 1.65 psi^3: a displacement of h moved the variable by 4 times its
        # distance to the ratchet reference on one coordinate, flagged by the Richardson pair, and by 1.02 times on
        # another, where the pair differed by 7e-5 only but the extrapolation was off by 0.3 of that.)
        # (The zero region of such a potential is an interval reaching at least one end of the stencil; a linear bias
        # centred on the current value is zero at the base point only and is not concerned.)
        es = (e0, ep, em, ep2, em2)
        straddle = (ep == 0.0 or em == 0.0) and any(x != 0.0 for x in es)
        if spread > 1e-4 * fscale + 50 * rnd or spread2 > 1e-4 * fscale + 50 * rnd or straddle:
            n_inc += 1
            c.bump("coords_nonsmooth")
            if spread <= 1e-4 * fscale + 50 * rnd:
                c.bump("coords_nonsmooth_even_part_only" if not straddle else "coords_nonsmooth_zero_boundary_only")
            continue
        # 1e-6 of the force scale: the optimal-rotation derivatives come from an iterative (Jacobi)
        # diagonalisation converged to about 1e-8 relative; semantic errors are >= 1e-3
        tol = 0.1 * spread + rnd + 1e-6 * fscale
        dev = abs(F + g)
        worst = max(worst, dev / fscale)
        if dev > tol and case["bias"] == "opes":
            # explained by the shifted-kernel derivative (known finding) iff -dE/dx = rho * F with the rho predicted from the kernels
            for rho in opes_shift_ratio(case):
                if abs(rho * F + g) <= tol + 1e-3 * abs(rho - 1.0) * abs(F):
                    shift_rows += 1
                    break
            else:
                shift_rows = -10 ** 9
            if shift_rows > 0:
                n_ok += 1
                continue
        if dev > tol:
            # force vs -dE/dx disagree
            kind = "missing_force" if F == 0.0 else ("unjustified_force" if abs(g) <= tol else "wrong_force")
            c.violation("%s:%s" % (kind, key_cfg),
                        "atom %d coord %d: F=%.12g -dE/dx=%.12g tol=%.3g (fscale %.3g)" % (k + 1, d, F, -g, tol, fscale),
                        files, payload={"bias": case.get("bias_text"), "cv": case["cv"]["text"]})
            return n_ok, n_inc
        n_ok += 1
    if shift_rows > 0:
        rh = opes_shift_ratio(case)
        c.violation("opes_kernel_shift_not_differentiated:" + case["ctype"],
                    "%d coordinates: -dE/dx = rho * F with rho in %s as predicted from the kernels in the state (truncated, shifted "
                    "kernels whose shift multiplies the slope); all other coordinates agree exactly" % (shift_rows, ["%.9g" % r for r in rh]),
                    files, payload={"bias": case.get("bias_text"), "cv": case["cv"]["text"]})
    # atoms outside every group: exactly zero force, energy exactly insensitive
    fitatoms = set()
    for comp in case["cv"]["comps"]:
        pass
    for row in ev["d"]:
        k = row[0]
        if k >= case["sysm"]["natoms"] - 2:
            if any(fl(x) != e0 for x in row[2:6]) or any(fl(x) != 0.0 for x in f0[k]):
                c.violation("spectator_atom:" + key_cfg, "atom %d outside all groups changes E or gets force" % (k + 1), files)
                return n_ok, n_inc
            c.bump("spectator_coords_checked")
    c.extra["worst_rel_dev"] = max(c.extra.get("worst_rel_dev", 0.0), worst)
    return n_ok, n_inc


def plan(c, tier):
    rng = c.rng
    cases = []
    reps = 4 if tier == "quick" else 40
    idx = 0
    for rep in range(reps):
        for ctype in corpus.COMPONENTS:
            fits = ["none"]
            if ctype in corpus.FIT_CAPABLE:
                # enableFitGradients off is a documented approximation (forces on the fitting group
                # are deliberately omitted), so C01 does not apply to it
                fits = [f for f in corpus.FIT_KINDS if f != "fitgroup_nograd"]
            for fit in fits:
                if ctype == "rmsd" and fit in ("center", "rotate"):
                    continue
                # probe the vtype by a throwaway generation
                vt = corpus.COMPONENTS[ctype](rng.__class__(1), corpus.make_system(rng.__class__(1), 26), list(range(1, 25)), {})["vtype"]
                blist = BIASES_SCALAR if vt == "scalar" else BIASES_NONSCALAR[vt]
                if fit != "none" or tier == "quick":
                    bl = [rng.choice(blist)] if fit != "none" else rng.sample(blist, min(3, len(blist)))
                else:
                    bl = blist
                for b in bl:
                    cases.append(gen_case(rng, idx, ctype, fit, b, cell=(rng.random() < 0.4)))
                    idx += 1
        # composite components (templates outside corpus.COMPONENTS): protein variables on named atoms, path variables in
        # Cartesian and in CV space, linearCombination, neuralNetwork
        for ctype in corpus.C01_EXTRA_COMPONENTS:
            nb = 2 if tier == "quick" else len(BIASES_SCALAR)
            for j in range(nb):
                def pick(vt, j=j):
                    bl = BIASES_SCALAR if vt == "scalar" else BIASES_NONSCALAR[vt]
                    return rng.choice(bl) if tier == "quick" else bl[j % len(bl)]
                vl = corpus.C01_EXTRA_VARIANTS.get(ctype)
                o = {"variant": vl[(rep * nb + j + rep) % len(vl)]} if vl else {}
                cases.append(gen_case(rng, idx, ctype, "none", pick, cell=(rng.random() < 0.4), composite=True, opts=o))
                idx += 1
        # distanceZ with a period shorter than the unwrapped projection (the reported value is wrapped by one or more
        # periods), fixed axis and ref2; linear restraints are refused on periodic variables, walls need both sides
        for ax in ("axis", "ref2"):
            bl = ["harmonic", "walls_both", "meta"]
            for b in (bl if tier == "thorough" else rng.sample(bl, 2)):
                per = rng.choice([1.0, 1.5, 2.0, 3.0])
                o = {"axis": ax, "period": per}
                if rng.random() < 0.5:
                    o["wrap"] = round(rng.uniform(-per, per), 3)
                cases.append(gen_case(rng, idx, "distanceZ", "periodic_" + ax, b, cell=(rng.random() < 0.4), opts=o))
                idx += 1
        # polynomial / linear combinations of scalar components
        scal = ["distance", "angle", "dihedral", "gyration", "coordNum", "distanceZ", "rmsd", "inertia", "hBond"]
        for _ in range(6):
            cases.append(gen_case(rng, idx, None, "none", rng.choice(BIASES_SCALAR), cell=(rng.random() < 0.4),
                                  combo=rng.sample(scal, rng.randint(2, 3))))
            idx += 1
    return cases


def run(tier, replay):
    c = common.Check("C01", tier)
    c.use_flavour("plain")
    c.rule = ("cases = (component type x atom-group fit option or template variant x bias type x cell on/off x coeff/exp); every coordinate "
              "of every engine atom swept by central differences at h and h/2 through the real calc(); a case is "
              "non-trivial/distinct by its (component, fit option, bias) triple having >=1 conclusive coordinate with "
              "non-zero force")
    c.assumptions = ["finite differences with Richardson error bar; coordinates where the two step sizes disagree by "
                     ">1e-4 of the force scale are inconclusive (non-smooth point), not violations; so are coordinates whose "
                     "second differences at the two step sizes disagree by as much, or whose stencil reaches the exactly-zero "
                     "side of a one-sided potential (both tests use the energy samples only)",
                     "composite components (path variables, linearCombination, neuralNetwork) are laid out around the current "
                     "point from the values of their sub-components in a preliminary run; CV-space dimensions are given "
                     "comparable scales",
                     "sweep evaluations are repeats of one step with the continuing flag set, so accumulating biases do not change"]
    common.vbuild.ensure("plain", tools=["esim"])
    cases = plan(c, tier)

    def wd(case):
        return os.path.join(c.work, "c%d" % case["idx"])

    # composite components whose files depend on the current values of their sub-components: preliminary run
    def p0(case):
        return common.run_esim("plain", scenario_pass0(case), wd(case), "p0")

    prep = [case for case in cases if case["cv"].get("prep")]
    dropped = set()
    for case, (r, ev, sp) in zip(prep, common.pmap(p0, prep)):
        st = [e for e in ev if e.get("ev") == "step"]
        cfg = [e for e in ev if e.get("ev") == "config"]
        if not r["complete"] or not st or (cfg and cfg[0]["rc"] != 0) or st[0]["err"]:
            c.inconc("pass0 failed for %s/%s: %s" % (case["ctype"], case["fit"], (cfg[0]["errs"] if cfg else r["err"])[:3]))
            c.note_set("templates_rejected", "%s/%s" % (case["ctype"], case["fit"]))
            dropped.add(case["idx"])
            continue
        case["cv"]["prep"]["finalize"]({k: [fl(x) for x in v["x"]] for k, v in st[0]["cv"].items()})
    cases = [case for case in cases if case["idx"] not in dropped]

    def p1(case):
        case["_files"] = write_files(case, wd(case))
        r, ev, sp = common.run_esim("plain", scenario_pass1(case), wd(case), "p1")
        return r, ev, sp

    res1 = common.pmap(p1, cases)
    todo = []
    for case, (r, ev, sp) in zip(cases, res1):
        st = [e for e in ev if e.get("ev") == "step"]
        cfg = [e for e in ev if e.get("ev") == "config"]
        if not r["complete"] or not st or (cfg and cfg[0]["rc"] != 0) or st[0]["err"]:
            c.inconc("pass1 failed for %s/%s: %s" % (case["ctype"], case["fit"], (cfg[0]["errs"] if cfg else r["err"])[:3]))
            c.note_set("templates_rejected", "%s/%s" % (case["ctype"], case["fit"]))
            continue
        case["val"] = [fl(x) for x in st[0]["cv"]["cv1"]["x"]]
        case["val2"] = [fl(x) for x in st[1]["cv"]["cv1"]["x"]]
        todo.append(case)

    def p2(case):
        r, ev, sp = common.run_esim("plain", scenario_pass2(c.rng.__class__(c.seed * 7919 + case["idx"]), case, case["val"]),
                                    os.path.join(c.work, "c%d" % case["idx"]), "p2", timeout=300)
        return r, ev, sp

    res2 = common.pmap(p2, todo)
    conclusive_coords = 0
    for case, (r, ev, sp) in zip(todo, res2):
        c.count()
        sw = [e for e in ev if e.get("ev") == "fdsweep"]
        cfg = [e for e in ev if e.get("ev") == "config"]
        if r["sig"] or r["timeout"] or not r["complete"] or not sw:
            if cfg and cfg[0]["rc"] != 0:
                c.inconc("bias config rejected %s/%s: %s" % (case["ctype"], case["bias"], str(cfg[0]["errs"])[:200]))
                c.note_set("templates_rejected", "%s/%s" % (case["ctype"], case["bias"]))
            elif r["sig"] and not r["timeout"]:
                # the process died while evaluating or applying forces: the engine never received them
                c.violation("crash_in_force_evaluation:%s:%s:%s" % (case["ctype"], case["fit"], case["bias"]),
                            "esim terminated by signal %s during the biased run: %s" % (r["sig"], r["err"][-300:]),
                            [sp] + case.get("_files", []), payload={"bias": case.get("bias_text"), "cv": case["cv"]["text"]})
            else:
                c.inconc("run failed %s/%s/%s sig=%s: %s" % (case["ctype"], case["fit"], case["bias"], r["sig"], r["err"][-300:]))
            continue
        case["_errs"] = [e.get("errs") for e in ev if e.get("errs")]
        st = [e for e in ev if e.get("ev") == "savestr"]
        case["_state"] = st[0].get("state", "") if st else ""
        n_ok, n_inc = check_sweep(c, case, sw[0], [sp] + case.get("_files", []))
        conclusive_coords += n_ok
        c.bump("coordinates_conclusive", n_ok)
        nz = any(fl(x) != 0.0 for f in sw[0]["f0"] for x in f)
        if case["ctype"] in corpus.C01_EXTRA_COMPONENTS or case["fit"].startswith("periodic_"):
            lab = case["ctype"] if not case["fit"].startswith("periodic_") else case["ctype"] + ":" + case["fit"]
            pc = c.extra.setdefault("new_template_coords", {}).setdefault(lab, {"cases": 0, "conclusive": 0, "nonsmooth": 0})
            pc["cases"] += 1
            pc["conclusive"] += n_ok
            pc["nonsmooth"] += n_inc
        if n_ok and nz:
            c.nontrivial("%s|%s|%s" % (case["ctype"], case["fit"], case["bias"]))
            c.note_set("component_types_covered", case["ctype"])
            c.note_set("bias_types_covered", case["bias"])
            c.sample({"component": case["ctype"], "fit": case["fit"], "bias": case["bias"], "cell": bool(case["sysm"]["cell"]),
                      "conclusive_coords": n_ok, "nonsmooth_coords": n_inc, "energy": sw[0]["e0"]})
        elif n_ok and not nz:
            c.bump("cases_zero_force")
    uncovered = sorted(set(ALL_TYPES) - set(c.extra.get("component_types_covered", [])))
    c.extra["component_types_uncovered"] = uncovered
    floor = len(c.distinct) >= (80 if tier == "quick" else 100) and conclusive_coords >= 5000
    return c.finish(floor, "only %d distinct triples / %d conclusive coordinates" % (len(c.distinct), conclusive_coords))


ALL_TYPES = list(corpus.COMPONENTS) + ["alpha", "dihedralPC", "gspath", "gzpath", "aspath", "azpath", "linearCombination",
                                         "gspathCV", "gzpathCV", "aspathCV", "azpathCV", "neuralNetwork", "alchLambda",
                                         "alchFLambda", "mapTotal", "customColvar", "torchANN"]
