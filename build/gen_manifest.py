#!/usr/bin/env python3
"""Writes /verif/MANIFEST.json.  REGISTERED lists the properties whose monitor exists, has been
silent on the unchanged tree for several seeds and has fired on its validation mutants."""
import json
import os
import subprocess

VERIF = os.path.dirname(os.path.dirname(os.path.abspath(__file__)))

REGISTERED = ["C01", "C02", "C03", "C04", "C05", "C06", "C07", "C11", "C12", "C13", "C14", "C16", "C18", "C19"]

NOT_YET = "monitor designed (DESIGN.md section 2) but not yet built/validated in /verif; not claimed until it is"

P = {
    "C01": dict(cat="exploration", tech="runtime monitor: engine-side finite-difference oracle on add_energy()/applied atomic forces over generated configurations (esim), Richardson error bars, purity guard",
                text="Sampled (component type x atom-group option x bias x cell) configurations and geometries run through the real calc(); every coordinate of every engine atom swept by central differences of the engine-visible energy and compared with the force handed to the engine. Held on the cases listed in the evidence; says nothing about components without a template (listed as uncovered).",
                note="trusts the engine simulator (esim/verif_proxy) to follow the NAMD/LAMMPS proxy contract; finite differences with h=1e-4 and h/2, non-smooth points are inconclusive; tolerance 1e-6 of the force scale (accuracy of the iterative diagonalisation)"),
    "C02": dict(cat="exploration", tech="runtime monitor: metamorphic transformations + independent numpy reference of each definition on colvar values observed through esim",
                text="Sampled geometries; values observed through colvar::value() compared with an independent implementation and under symmetry transformations.", note="reference models written from the manual"),
    "C03": dict(cat="exploration", tech="runtime monitor: differential histories (uninterrupted vs stop/save/fresh-process/load) compared event by event at the engine boundary",
                text="All stop steps K of short histories for each bias family and both state formats.", note="tolerance = printed precision of the state format"),
    "C04": dict(cat="exploration", tech="runtime monitor: lock-step reference model of the ABF estimator fed with dyadic, uniquely identifiable force samples",
                text="Fed histories versus estimator model.", note="dyadic inputs make sums exact"),
    "C05": dict(cat="exploration", tech="runtime monitor: lock-step reference model of the hill sum over fed trajectories",
                text="Fed trajectories versus hill-sum model.", note="truncation band of the Gaussian cut-off accepted"),
    "C06": dict(cat="exploration", tech="runtime monitor: closed-form restraint/schedule model, segmentation-blind, compared under several run segmentations",
                text="Closed forms and schedules under several segmentations.", note=""),
    "C07": dict(cat="exploration", tech="runtime monitor: closed-loop force echo through the engine simulator",
                text="Closed loop force echo.", note=""),
    "C08": dict(cat="exploration", tech="runtime monitor: differential runs (A+B vs A, B; factor n vs 1) at the engine boundary",
                text="Bias subsets and time-step factors.", note=""),
    "C09": dict(cat="exploration", tech="libFuzzer+ASan/UBSan on read_config_string; enumerated keyword mutations; layout rewrites compared bitwise",
                text="Fuzzing + enumerated mutation classes + rewrites.", note=""),
    "C10": dict(cat="exploration", tech="ASan/UBSan processes over a keyword x boundary-value grid; survivor differential",
                text="Keyword x boundary-value grid.", note=""),
    "C11": dict(cat="fault_enumeration", tech="strace/LD_PRELOAD crash-point enumeration of state writes; exhaustive truncation; libFuzzer on state input; typed round trip",
                text="Every syscall index and partial-write offset of a state write; every truncation offset.", note=""),
    "C12": dict(cat="exploration", tech="schedule controller (permutations / std::thread / OpenMP) with bitwise differential + ThreadSanitizer(Archer)",
                text="Schedules executed on the real code + race detector.", note=""),
    "C13": dict(cat="exploration", tech="ASan runs of define/delete programs; identity oracle vs fresh module; dependency-graph invariant hook at quiescent points",
                text="Define/delete programs.", note=""),
    "C14": dict(cat="exploration", tech="multi-process walkers over simulated replica layer; exactly-once accounting with unique dyadic samples; file-system fault injection",
                text="Walker interleavings, delays, truncations.", note=""),
    "C15": dict(cat="exploration", tech="imposed dyadic value sequences vs literal binning model; grid file round trips in-process",
                text="Imposed value sequences; file round trips.", note=""),
    "C16": dict(cat="exploration", tech="in-process harness on integrate_potential: independent numpy operators, refinement-order test, incremental-vs-batch divergence via guarded accessor",
                text="Random fields, orders of arrival, refinement triples.", note=""),
    "C17": dict(cat="exploration", tech="lock-step BAOA reference model with controlled Gaussian source + model-free invariants on trajectory columns",
                text="Lock-step integrator model + model-free invariants.", note=""),
    "C18": dict(cat="exploration", tech="in-process property harness over colvarvalue/colvar metric functions, random + adversarial pairs, finite-difference gradient oracle",
                text="Random and adversarial value pairs.", note=""),
    "C19": dict(cat="exploration", tech="offline checker of trajectory/analysis files against the event log and textbook statistics",
                text="Output files vs event log and textbook statistics.", note=""),
    "C20": dict(cat="exploration", tech="libFuzzer+ASan on script command sequences; agreement of script queries with engine-side event log",
                text="Fuzzed command sequences + agreement scenarios.", note=""),
}


def main():
    hooks_commits = []
    try:
        out = subprocess.run(["git", "-C", "/repo", "log", "--format=%h %s"], stdout=subprocess.PIPE, text=True).stdout
        for line in out.splitlines():
            if line.split(" ", 1)[1].startswith("verif hooks"):
                hooks_commits.append(line.split(" ", 1)[0])
    except Exception:
        pass
    checks = []
    for pid in sorted(P):
        if pid not in REGISTERED:
            continue
        p = P[pid]
        checks.append({
            "property_id": pid,
            "quick_cmd": "./vcheck %s --tier quick" % pid,
            "thorough_cmd": "./vcheck %s --tier thorough" % pid,
            "evidence_file": "/verif/evidence/%s.json" % pid,
            "replay_cmd_template": "./vcheck %s --replay {path}" % pid,
            "engine": "esim",
            "level_claimed": {"category": p["cat"], "text": p["text"], "design_ref": "DESIGN.md section 2, " + pid},
            "level_note": p["note"] or "trusts the engine simulator and the reference model written from the manual",
            "technique": p["tech"],
        })
    man = {
        "version": 1,
        "setup_cmd": "./build/setup.sh",
        "hooks": {
            "guard": "COLVARS_VERIF",
            "enable": "-DCOLVARS_VERIF in every flavour of build/build.py (read-only friend accessor struct colvars_verif_access)",
            "baseline_off_cmd": "/verif/build/baseline_off.sh",
            "source_commits": hooks_commits,
            "add_only": True,
        },
        "engines": [
            {"name": "esim", "path": "/verif/esim", "serves_properties": sorted(P),
             "kind_free_text": "engine simulator: colvarproxy subclass playing a complete MD engine (atoms, cell, both total-force conventions, replicas, SMP schedule controller, alchemical back end) + scenario interpreter + JSON event log"},
        ],
        "checks": checks,
        "notes": "All checks rebuild Colvars from /repo's working tree (content-hashed cache under /verif/.cache). "
                 "Exit 0 held / only known findings, 1 violation, 2 inconclusive or harness failure. known_findings.txt lists fixed and known findings.",
        "not_applicable": [{"property_id": pid, "reason": NOT_YET} for pid in sorted(P) if pid not in REGISTERED],
    }
    with open(os.path.join(VERIF, "MANIFEST.json"), "w") as f:
        json.dump(man, f, indent=1)
    print("MANIFEST.json: %d checks, %d not_applicable" % (len(checks), len(man["not_applicable"])))


if __name__ == "__main__":
    main()
