#!/usr/bin/env python3
"""Writes /verif/MANIFEST.json.  REGISTERED lists the properties whose monitor exists, has been
silent on the unchanged tree for several seeds and has fired on its validation mutants."""
import json
import os
import subprocess

VERIF = os.path.dirname(os.path.dirname(os.path.abspath(__file__)))

REGISTERED = ["C01", "C02", "C03", "C04", "C05", "C06", "C07", "C08", "C09", "C10", "C11", "C12", "C13", "C14", "C15", "C16", "C17", "C18", "C19", "C20"]

NOT_YET = "monitor designed (DESIGN.md section 2) but not yet built/validated in /verif; not claimed until it is"

P = {
    "C01": dict(cat="exploration", tech="runtime monitor: engine-side finite-difference oracle (Richardson pair) on add_energy()/applied atomic forces over generated configurations in the engine simulator, purity guard, ASan sample",
                text="Generated (component type x atom-group fit option x bias x cell x coefficient/exponent) configurations and random geometries are run through the real calc(); every coordinate of every engine atom is swept by central differences (h, h/2) of the engine-visible energy and compared with the force handed to the engine; spectator atoms must get exactly zero. Held on the cases listed in the evidence; component types without a template are listed as uncovered.",
                note="trusts esim (engine contract of the NAMD/LAMMPS proxies); non-smooth points and stateful evaluations are inconclusive, never violations; tolerance 1e-6 of the force scale (accuracy of the iterative diagonalisation); enableFitGradients off and eigenvector default self-fit are documented approximations and excluded; OPES: the shifted-kernel derivative is a known finding, reported only when the deviation matches the factor predicted from the kernels in the state"),
    "C02": dict(cat="exploration", tech="runtime monitor: independent numpy reference of each documented definition + metamorphic transformations (rigid motion, lattice translation, permutation/duplicates, q/-q) on values observed through esim; optimality of the fitting rotation tested against random and perturbed rotations",
                text="33 component types compared with an independent implementation written from the manual and under every invariance that follows from the documented definition; fitting rotation checked to be the least-squares optimum.",
                note="conditioning-aware tolerance 1e-10*scale + 1e-11*sensitivity; documented singular geometries skipped; path CVs, neuralNetwork, alch*, mapTotal, Lepton/Torch components uncovered (listed in the evidence)"),
    "C03": dict(cat="exploration", tech="runtime monitor: differential histories (uninterrupted vs stop / state file / fresh process / load / resume) compared event by event at the engine boundary, both state formats, file / string / buffer channels; save(load(S)) == S",
                text="For 35 bias families (restraints fixed/moving/staged, walls, linear, ABF/eABF, TI accumulators, metadynamics variants, OPES, ABMD, ALB, histogram, histogramRestraint, reweightaMD, extended Lagrangian) every stop step K of a short history with off-grid excursions is resumed in a fresh process; all later engine-visible events and the final state must agree; for part of the K the state is loaded into an instance that has already run (load between two runs of the engine), and for part of the K the run simply ends and a new run of the same session follows. Exhaustive over K in the thorough tier.",
                note="positions and physical forces are imposed, so no chaotic amplification: reals agree to 1e-10 relative (state files carry 14 digits), integers exactly; step K is recomputed with step_relative()==0 as engines do"),
    "C04": dict(cat="exploration", tech="runtime monitor: lock-step reference model of the ABF estimator fed with exactly imposed values and dyadic projected forces; stored counts (==), stored mean gradients (printed precision) and applied force compared after every step; ASan sample",
                text="1-3 variables, both total-force timing conventions, periodic zero-mean, ramp corner values, maxForce, applyBias off, a second bias with/without subtractAppliedForce, off-grid excursions, run boundaries.",
                note="distanceZ variables (Jacobian zero) at T=0; dyadic inputs make all sums exact"),
    "C05": dict(cat="exploration", tech="runtime monitor: lock-step reference model of the hill sum (documented schedule, tabulated vs pending vs off-grid evaluation, well-tempered heights) over imposed trajectories; acceptance band spans the documented Gaussian cut-off; ASan sample",
                text="1-3 scalar variables, grids on/off, gridsUpdateFrequency >= newHillFrequency, well-tempered, periodic, expandBoundaries, keepHills, excursions beyond the grid, run boundaries; energy and per-variable force every step, hill list at the end. Without grids, half of the jobs are continued by a fresh module configured with another hillWidth: every hill keeps its own widths. Mid-run state writes with pending hills; first steps beyond 2^31.",
                note="Boltzmann constant of the 'real' unit system; non-scalar variables are covered by C01's finite differences"),
    "C06": dict(cat="exploration", tech="runtime monitor: closed-form restraint and schedule model (functions of the absolute step only) compared under three segmentations of the same history (one run / new run statements / restart from state file in a fresh process); trajectory columns, state fields and dA/dLambda log lines observed",
                text="harmonic (scalar, periodic, vector, unit vector, quaternion), harmonicWalls, linear, histogramRestraint, ABMD; continuous, staged, lambdaSchedule, targetEquilSteps, lambdaExponent, decoupling schedules; accumulated work and staged TI. Multi-variable restraints list their variables in another order than the names sort; schedules that ended long ago with first steps beyond 2^31.",
                note="energy 1e-12 relative, work 1e-12*sum|terms| (1e-10 across a state file), TI lines at the 6 printed digits; one documentation/code mismatch (histogramRestraint normalisation) is a known finding"),
    "C07": dict(cat="exploration", tech="runtime monitor: closed loop through the engine simulator (forces Colvars applied are echoed back as total forces), linearity and locality of the total force in the atomic force field, Jacobian term vs numerical divergence of the inverse gradients",
                text="distance, distanceZ, distanceXY, angle, dihedral, gyration, rmsd, eigenvector, alchLambda, +-1 combinations, oneSiteTotalForce, both timing conventions, subtractAppliedForce, hideJacobian.",
                note="random (non-dyadic) inputs so that the known exact-cancellation finding of C04 is not triggered"),
    "C08": dict(cat="exploration", tech="runtime monitor: differential runs at the engine boundary (biases {A,B} vs {A} and {B}; time-step factor n vs 1) on imposed histories",
                text="Sets of biases {A,B,...} run together and separately on the same imposed history: energies and atomic forces of the joint run equal the sums of the separate runs, and a bias with applyBias off / zero strength contributes nothing. Biases and variables with timeStepFactor n: asleep between their steps (no value update, no force), awake steps apply n times the instantaneous force, impulse over a window equals the factor-1 impulse of the sampled steps; runs starting off-multiple (restart, setstep). A third of the joint runs with >= 3 biases use the library's own OpenMP loops with a thread count that does not divide the number of biases.", note="a variable with factor n under a bias whose factor is not a multiple of n is computed off its schedule: known finding (manual allows the combination)"),
    "C09": dict(cat="exploration", tech="libFuzzer + ASan/UBSan on read_config_string (hermetic proxy); enumerated keyword/brace/value mutations that must be rejected; documented layout rewrites compared bitwise",
                text="libFuzzer on read_config_string with a dictionary harvested from the sources (quick: 8 workers x 2000 executions, thorough: 16 x 25000); accepted configurations under the damage classes the property names (misspelt keyword, keyword in a block where it is not valid, one brace deleted or added, value of a non-boolean keyword deleted, number replaced by an alphabetic token) must be rejected with an error and leave the module usable; documented layout rewrites (blank lines, indentation, comments, CRLF, blocks joined on one line, brace on the last value line, boolean synonyms, keyword case) must produce a bit-identical model (values, energies, forces after steps).", note="fuzz corpus is seeded from the generated templates; crashes are keyed by sanitizer kind and innermost Colvars frame"),
    "C10": dict(cat="exploration", tech="ASan/UBSan processes over a (object type x keyword x boundary value) grid, one process per case; differential test of surviving objects after a rejected configuration",
                text="Every keyword (occurring in a template or harvested from the get_keyval calls of the class that parses the block) x {0, -1, 1, 2, 2^31-1, 2^31, 2^32, 2^61, 2^63-1, 1e30, 1e308, nan, inf, -inf, empty, removed, list/vector length errors, bad atoms, missing files, swapped boundaries} plus seeded pairs, one ASan/UBSan process per case through init, steps, state and output writes: must end with success or an error, never a signal, sanitizer report, escaping exception, unbounded allocation or hang. Survivors: after a rejected configuration fed through cv config (including colvars that use the deprecated wall keywords), the previously defined objects behave bit-identically to a control that never saw it, and a later valid configuration is accepted in both.", note="quick runs a stratified sample (about 3800 cases), thorough about 40000; hang = 120 s watchdog re-run once at 10x before it is reported"),
    "C11": dict(cat="fault_enumeration", tech="strace syscall-level kill injection + LD_PRELOAD partial-write shim over every file-system call of a state write; exhaustive truncation and bit flips of valid states under ASan; libFuzzer on state input; typed round trip through memory_stream",
                text="Every call (and partial write) of state writes after the first complete state is turned into a crash point, then a fresh process must load the state file or its backup and find one of the states the uninjected run produced; every truncation offset of text and binary states of 7 configurations must be rejected inside object blocks and never crash; every value type round-trips bit-exactly; fault sequences: a state write that fails with ENOSPC (first or last write() of the file), the run going on, then death at every call of the following state writes.",
                note="crash = SIGKILL of the process (no power-loss / page-cache model); one format limitation (binary hill list has no count) is a known finding"),
    "C12": dict(cat="exploration", tech="schedule controller behind the proxy's virtual SMP methods (seeded permutations x thread-id maps, std::thread schedules) and the real OpenMP loops with 1-16 threads, all compared bitwise with the serial run; ThreadSanitizer with clang/libomp/Archer for races",
                text="Each scenario (two-component variables, restraints, metadynamics, histogram, OPES, native scripted-force task) is executed under >100 distinct schedules plus TSan runs; every event, the final state and the trajectory file must be bit-identical to the serial reference and TSan must stay silent. Scenarios include a two-variable ALB bias (random numbers) and two extended-Lagrangian variables with the Langevin thermostat (engine's single Gaussian stream).",
                note="TSan sees OpenMP synchronisation through Archer; gcc/libgomp TSan is not used (false races on correct code)"),
    "C13": dict(cat="exploration", tech="ASan runs of define/delete programs (exhaustive up to length 4 over a reduced alphabet + random longer ones); identity oracle vs a control that never defined the deleted objects and vs a fresh module built from getconfig; dependency-graph invariant through the guarded read-only accessor after every command",
                text="Programs over {add variable, add bias, delete bias, delete variable, reset, step, rejected configuration}; values/energies/forces/active-atom count/trajectory labels vs control; enabled feature => prerequisites enabled, exclusions, symmetry, reference counts recomputed from scratch. Catalogue includes named atom groups reused through atomsOfGroup, path variables, hideJacobian ABF pairs; rejected configurations include two faulty blocks of different types in one text.",
                note="reference counts above the number of dependents left by a REJECTED definition are counted, not flagged (nothing is switched off under a dependent)"),
    "C14": dict(cat="exploration", tech="multi-process walkers over a simulated replica layer (FIFOs, seeded delays) with exactly-once accounting of unique dyadic samples (shared ABF); lock-step driven walker processes with transient peer-file truncation at random bytes and union-of-hills oracle at probe points (multiple-walker metadynamics)",
                text="2-4 walkers; every exchange of every walker compared with the union of all walkers' samples (counts ==); metadynamics walkers under a seeded interleaving and partially visible peer files must end up with the hill sum over the union within two update periods. Shared-ABF groups started from earlier .count/.grad files (inputPrefix; counted once, never in a walker's own contribution); each metadynamics walker's .pmf file (with or without the partial file) against the bias it applies once everything received is tabulated.",
                note="bounded-progress form of 'eventually'; replica communication simulated between processes"),
    "C15": dict(cat="exploration", tech="runtime monitor: imposed dyadic values (on bin edges, boundaries, periods away) vs the literal binning rule, stored counts and multicolumn file compared cell by cell; in-process grid write/read round trips (multicol, restart text/binary, raw)",
                text="Histograms and ABF count grids of 1-3 variables fed imposed dyadic values on bin edges, boundaries, just inside/outside, whole periods away: every sample lands in exactly the bin given by floor((x-lower)/width) (periodic: modulo), out-of-range samples are dropped (not clamped), totals conserved; grids written as multicolumn / restart text / restart binary / raw and read back must reproduce parameters and data exactly. Decimal (not exactly representable) boundaries and widths whose quotient is a whole number of bins mathematically, with samples exactly on decimal bin edges.", note="gatherVectorColvars histograms are rejected by the library at initialisation (known finding), so per-element weights cannot be exercised"),
    "C16": dict(cat="exploration", tech="in-process harness on integrate_potential / gradient grids with independent numpy oracles: 1-D cumulative sums and closure, residual of the discrete Poisson problem (own operator, independent Laplacian, dense least squares), refinement-order test against analytic surfaces, incremental-vs-batch divergence through the guarded accessor, real ABF runs",
                text="Random fields on 1-3-D grids with all periodicity patterns and anisotropic widths, six arrival-order classes, three resolutions per analytic surface; the divergence itself against the documented formula evaluated independently (several grids per process); end-to-end files of the TI estimator and of 2-D ABF/eABF fed through inputPrefix (zero-step merge runs and short runs). Residual law also for a second integration of one object started from the surface of other data.",
                note="max-norm order at corners where >=2 non-periodic directions meet is h^2 log(1/h): counted separately, RMS order must still be 2"),
    "C17": dict(cat="exploration", tech="lock-step reference model of the documented BAOA integrator with a controlled Gaussian source + model-free invariants on the observed coordinate/velocity/energies",
                text="Extended-Lagrangian variables (reflecting walls / periodic / free, friction 0 and > 0, timeStepFactor 1-3, harmonic / walls / metadynamics / ABF biases, bypassing biases) driven over imposed excursions: the documented integrator is run in lock-step from the imposed actual value, the observed bias force and the logged Gaussians and compared every step; model-free laws on the same logs: energy drift bounded and O(dt^2) when dt is halved (friction 0), never outside a reflecting wall, repeated step / new run / restart twins, one-step identities tying Ep, Ek, total and applied force to the reported state, force routing (atoms feel only the spring and bypassing biases), equipartition over 2e5 updates (thorough). A third of the single-process sessions define the variable only after 60 steps with another variable (first step is not the first step of the run).",
                note="reported velocity is the half-step one (leapfrog form of the documented scheme); reflection velocity rule taken from the code (manual only says 'opposite momentum'), both sign conventions accepted and counted; metadynamics/ABF forces on the extended coordinate are taken as observed (their closure is C04/C05)"),
    "C18": dict(cat="exploration", tech="in-process property harness over colvarvalue / colvar metric functions (dist2, gradients, wrap, interpolate, constraints) with random and adversarial pairs and a finite-difference tangent-space gradient oracle; ASan sample",
                text="Every value type and 11 configured variables (periodic, unit vector, quaternion, minimum image...) x 16 pair classes; non-negativity, symmetry, identity, period and sign invariance, gradient, wrap range, interpolation end points and manifold.",
                note="only the tangent projection of the gradient is constrained; near the cut locus the gradient test is inconclusive"),
    "C19": dict(cat="exploration", tech="offline checker of the trajectory, running-average and correlation-function files against the engine-side event log and textbook statistics (numpy)",
                text="Column/label agreement, step stamps, one line per multiple of the output frequency across run boundaries and object addition/deletion; running average/deviation and auto/cross correlation functions vs textbook definitions. harmonicWalls energy column against the closed form (one or two wall constants; below, between and above the walls).",
                note="printed precision (1e-10 relative for derived quantities)"),
    "C20": dict(cat="exploration", tech="libFuzzer + ASan/UBSan over script command sequences with a usability epilogue; agreement of script queries with the engine-side event log; equivalence of script-driven and engine-driven paths",
                text="libFuzzer over sequences of run_colvarscript_command calls (well-formed and malformed, every command of the table at least once each way) interleaved with steps, with an epilogue that must behave as a pristine module; after every step of generated scenarios the script queries equal the engine-side event log at the printed precision; cv config / load / loadfromstring (objects defined in the same or in reverse order, into a fresh module or into one that has already run) / addforce / delete / modifycvcs are equivalent to their engine-driven counterparts on the subsequent steps; two interactive sessions with the same history, one through files (configfile, bias save/load twice under one name, reset, file replaced, configfile) and one through strings, give equal step events. addforce on orientation / distanceVec / distanceDir variables: getappliedforce returns F, atomic forces linear in F; two cv config pieces against the whole text read at once, module-level options given once.", note="equivalence is bitwise, except reordered loaders (sums run in another order): 1e-9 relative"),
}


def main():
    hooks_commits = []
    try:
        out = subprocess.run(["git", "-C", "/repo", "log", "--format=%h %s"], stdout=subprocess.PIPE, text=True).stdout
        for line in out.splitlines():
            if line.split(" ", 1)[1].startswith("verif hooks"):
                hooks_commits.append(line.split(" ", 1)[0])
    except Exception:
        pass
    checks = []
    for pid in sorted(P):
        if pid not in REGISTERED:
            continue
        p = P[pid]
        checks.append({
            "property_id": pid,
            "quick_cmd": "./vcheck %s --tier quick" % pid,
            "thorough_cmd": "./vcheck %s --tier thorough" % pid,
            "evidence_file": "/verif/evidence/%s.json" % pid,
            "replay_cmd_template": "./vcheck %s --replay {path}" % pid,
            "engine": "esim",
            "level_claimed": {"category": p["cat"], "text": p["text"], "design_ref": "DESIGN.md section 2, " + pid},
            "level_note": p["note"] or "trusts the engine simulator and the reference model written from the manual",
            "technique": p["tech"],
        })
    man = {
        "version": 1,
        "setup_cmd": "./build/setup.sh",
        "hooks": {
            "guard": "COLVARS_VERIF",
            "enable": "-DCOLVARS_VERIF in every flavour of build/build.py (read-only friend accessor struct colvars_verif_access)",
            "baseline_off_cmd": "/verif/build/baseline_off.sh",
            "source_commits": hooks_commits,
            "add_only": True,
        },
        "engines": [
            {"name": "esim", "path": "/verif/esim", "serves_properties": sorted(P),
             "kind_free_text": "engine simulator: colvarproxy subclass playing a complete MD engine (atoms, cell, both total-force conventions, replicas, SMP schedule controller, alchemical back end) + scenario interpreter + JSON event log"},
        ],
        "checks": checks,
        "notes": "All checks rebuild Colvars from /repo's working tree (content-hashed cache under /verif/.cache). "
                 "Exit 0 held / only known findings, 1 violation, 2 inconclusive or harness failure. known_findings.txt lists fixed and known findings.",
        "not_applicable": [{"property_id": pid, "reason": NOT_YET} for pid in sorted(P) if pid not in REGISTERED],
    }
    with open(os.path.join(VERIF, "MANIFEST.json"), "w") as f:
        json.dump(man, f, indent=1)
    print("MANIFEST.json: %d checks, %d not_applicable" % (len(checks), len(man["not_applicable"])))


if __name__ == "__main__":
    main()
