#!/bin/sh
# Offline setup: build every flavour of Colvars from /repo's working tree plus the /verif tools.
cd "$(dirname "$0")/.." || exit 2
exec /usr/local/bin/python3-vt build/build.py plain asan tsan fuzz
