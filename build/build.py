#!/usr/bin/env python3
"""Flavour builds of Colvars (from /repo's *working tree*) plus the /verif tools linked to them.

Every check calls ensure(flavour) first.  The cache key is a SHA-256 over the contents of
/repo/src, the flavour's flags and the /verif C++ sources, so an edit to /repo can never be
served by a stale library: a different key means a rebuild (about 15-25 s wall on 16 cores).

Layout of a cache entry:  /verif/.cache/<flavour>-<key>/{obj/*.o, libcolvars.a, bin/<tool>}
Only the entry of the current key is kept per flavour.
"""
import hashlib
import os
import shutil
import subprocess
import sys
import time
from concurrent.futures import ThreadPoolExecutor

VERIF = os.path.dirname(os.path.dirname(os.path.abspath(__file__)))
REPO = os.environ.get("VERIF_REPO", "/repo")
CACHE = os.path.join(VERIF, ".cache")
GUARD = "-DCOLVARS_VERIF"

CLANG = "clang++-14"
GXX = "g++"

FLAVOURS = {
    # bulk numeric oracles, crash injection, walker processes
    "plain": dict(cxx=GXX, cflags=["-O2", "-g", "-fopenmp", "-DNDEBUG", GUARD],
                  ldflags=["-fopenmp", "-pthread"]),
    # hostile inputs
    "asan": dict(cxx=CLANG,
                 cflags=["-O1", "-g", "-fno-omit-frame-pointer", "-fsanitize=address,undefined",
                         "-fno-sanitize=object-size", "-fno-sanitize-recover=all", "-fopenmp",
                         "-DNDEBUG", GUARD],
                 ldflags=["-fsanitize=address,undefined", "-fopenmp", "-pthread"]),
    # races: clang + libomp + archer
    "tsan": dict(cxx=CLANG,
                 cflags=["-O1", "-g", "-fno-omit-frame-pointer", "-fsanitize=thread", "-fopenmp",
                         "-DNDEBUG", GUARD],
                 ldflags=["-fsanitize=thread", "-fopenmp", "-pthread"]),
    # libFuzzer targets (no OpenMP: one thread, deterministic)
    "fuzz": dict(cxx=CLANG,
                 cflags=["-O1", "-g", "-fno-omit-frame-pointer",
                         "-fsanitize=fuzzer-no-link,address,undefined",
                         "-fno-sanitize=object-size", "-fno-sanitize-recover=all",
                         "-DNDEBUG", GUARD],
                 ldflags=["-fsanitize=fuzzer,address,undefined", "-pthread"]),
}

# tools: name -> (sources relative to /verif, flavours it is built for, needs main from libFuzzer)
TOOLS = {
    "esim": (["esim/verif_proxy.cpp", "esim/esim_main.cpp"], ["plain", "asan", "tsan"]),
    "h_values": (["esim/verif_proxy.cpp", "harness/h_values.cpp"], ["plain", "asan"]),
    "h_memstream": (["esim/verif_proxy.cpp", "harness/h_memstream.cpp"], ["plain", "asan"]),
    "h_grids": (["esim/verif_proxy.cpp", "harness/h_grids.cpp"], ["plain", "asan"]),
    "h_poisson": (["esim/verif_proxy.cpp", "harness/h_poisson.cpp"], ["plain", "asan"]),
    "fz_config": (["esim/verif_proxy.cpp", "fuzz/fz_config.cpp"], ["fuzz"]),
    "fz_state": (["esim/verif_proxy.cpp", "fuzz/fz_state.cpp"], ["fuzz"]),
    "fz_script": (["esim/verif_proxy.cpp", "fuzz/fz_script.cpp"], ["fuzz"]),
}


def _sha(paths, extra):
    h = hashlib.sha256()
    for p in sorted(paths):
        h.update(p.encode())
        with open(p, "rb") as f:
            h.update(f.read())
    h.update(repr(extra).encode())
    return h.hexdigest()[:16]


def repo_sources():
    src = os.path.join(REPO, "src")
    cpps = sorted(os.path.join(src, f) for f in os.listdir(src) if f.endswith(".cpp"))
    hdrs = sorted(os.path.join(src, f) for f in os.listdir(src) if f.endswith(".h"))
    return cpps, hdrs


def verif_sources():
    out = []
    for d in ("esim", "harness", "fuzz"):
        dd = os.path.join(VERIF, d)
        if os.path.isdir(dd):
            for f in sorted(os.listdir(dd)):
                if f.endswith((".cpp", ".h")):
                    out.append(os.path.join(dd, f))
    return out


def lib_key(flavour):
    cpps, hdrs = repo_sources()
    return _sha(cpps + hdrs, FLAVOURS[flavour])


def _run(cmd, log):
    r = subprocess.run(cmd, stdout=subprocess.PIPE, stderr=subprocess.STDOUT, text=True)
    if r.returncode != 0:
        log.append("FAILED: " + " ".join(cmd) + "\n" + r.stdout)
    return r.returncode


def ensure(flavour, tools=None, quiet=True):
    """Return the cache dir for this flavour, building whatever is missing.  Raises on failure."""
    fl = FLAVOURS[flavour]
    key = lib_key(flavour)
    # scratch copies of the repository (VERIF_REPO=/tmp/...) get their own cache namespace so that
    # mutation runs never evict the cache of /repo itself
    ns = flavour if REPO == "/repo" else "%s@%s" % (flavour, hashlib.sha256(REPO.encode()).hexdigest()[:8])
    d = os.path.join(CACHE, "%s-%s" % (ns, key))
    os.makedirs(CACHE, exist_ok=True)
    # drop stale entries of this flavour
    for e in os.listdir(CACHE):
        if e.startswith(ns + "-") and e != os.path.basename(d):
            shutil.rmtree(os.path.join(CACHE, e), ignore_errors=True)
    lockf = os.path.join(CACHE, ns + ".lock")
    import fcntl
    with open(lockf, "w") as lk:
        fcntl.flock(lk, fcntl.LOCK_EX)
        os.makedirs(os.path.join(d, "obj"), exist_ok=True)
        os.makedirs(os.path.join(d, "bin"), exist_ok=True)
        lib = os.path.join(d, "libcolvars.a")
        log = []
        t0 = time.time()
        if not os.path.exists(lib):
            cpps, _ = repo_sources()
            cpps = sorted(cpps, key=lambda p: -os.path.getsize(p))
            jobs = []
            for c in cpps:
                o = os.path.join(d, "obj", os.path.basename(c)[:-4] + ".o")
                jobs.append(([fl["cxx"], "-std=c++17", "-c", c, "-o", o, "-I" + os.path.join(REPO, "src")]
                             + fl["cflags"], o))
            with ThreadPoolExecutor(16) as ex:
                rcs = list(ex.map(lambda j: _run(j[0], log), jobs))
            if any(rcs):
                sys.stderr.write("\n".join(log))
                raise RuntimeError("build of flavour %s failed" % flavour)
            tmp = lib + ".tmp"
            if os.path.exists(tmp):
                os.unlink(tmp)
            if _run(["ar", "rcs", tmp] + [j[1] for j in jobs], log):
                sys.stderr.write("\n".join(log))
                raise RuntimeError("ar failed")
            os.rename(tmp, lib)
            if not quiet:
                print("built %s lib in %.1fs" % (flavour, time.time() - t0))
        # tools
        want = [t for t, (srcs, fls) in TOOLS.items() if flavour in fls
                and (tools is None or t in tools)
                and all(os.path.exists(os.path.join(VERIF, s)) for s in srcs)]
        hdr_deps = [p for p in verif_sources() if p.endswith(".h")]

        def build_tool(t):
            srcs = [os.path.join(VERIF, s) for s in TOOLS[t][0]]
            tkey = _sha(srcs + hdr_deps, fl)
            out = os.path.join(d, "bin", t)
            stamp = out + ".key"
            if os.path.exists(out) and os.path.exists(stamp) and open(stamp).read() == tkey:
                return 0
            objs = []
            for s in srcs:
                skey = _sha([s] + hdr_deps, fl)
                o = os.path.join(d, "obj", "verif_%s_%s.o" % (os.path.basename(s)[:-4], skey))
                if not os.path.exists(o):
                    if _run([fl["cxx"], "-std=c++17", "-c", s, "-o", o + ".tmp.o", "-I" + os.path.join(REPO, "src"),
                             "-I" + os.path.join(VERIF, "esim")] + fl["cflags"], log):
                        return 1
                    os.rename(o + ".tmp.o", o)
                objs.append(o)
            if _run([fl["cxx"], "-o", out + ".tmp"] + objs + [lib] + fl["ldflags"] + ["-ldl"], log):
                return 1
            os.rename(out + ".tmp", out)
            with open(stamp, "w") as f:
                f.write(tkey)
            return 0

        # compile shared verif_proxy object first (serial), then the rest in parallel
        rcs = []
        if want:
            rcs.append(build_tool(want[0]))
            with ThreadPoolExecutor(8) as ex:
                rcs += list(ex.map(build_tool, want[1:]))
        if any(rcs):
            sys.stderr.write("\n".join(log))
            raise RuntimeError("tool build failed for flavour %s" % flavour)
    return d


_TOOL_MEMO = {}


def tool(flavour, name):
    # the tree is hashed once per process and tool: a check is one process, so it still rebuilds
    # from /repo's current working tree every time it is invoked
    k = (flavour, name)
    if k in _TOOL_MEMO and os.path.exists(_TOOL_MEMO[k]):
        return _TOOL_MEMO[k]
    p = _tool(flavour, name)
    _TOOL_MEMO[k] = p
    return p


def _tool(flavour, name):
    d = ensure(flavour, tools=[name])
    p = os.path.join(d, "bin", name)
    if not os.path.exists(p):
        raise RuntimeError("tool %s not built for %s" % (name, flavour))
    return p


if __name__ == "__main__":
    fls = sys.argv[1:] or list(FLAVOURS)
    t0 = time.time()
    with ThreadPoolExecutor(len(fls)) as ex:
        for f, d in zip(fls, ex.map(lambda f: ensure(f, quiet=False), fls)):
            print(f, d)
    print("total %.1fs" % (time.time() - t0))
