#!/bin/sh
# Build /repo's own cmake project WITHOUT the COLVARS_VERIF guard into a scratch directory and run
# the repository's pinned ctest suite (92 tests pass, customfunction_* always fails: no Lepton).
set -e
B=${VERIF_BASELINE_DIR:-/verif/work/baseline_build}
rm -rf "$B"
mkdir -p "$B"
grep -q "CMAKE_CXX_FLAGS:STRING=-Wno-error" /repo/_build/CMakeCache.txt 2>/dev/null || true
cmake -G Ninja -S /repo/cmake -B "$B" -DCMAKE_BUILD_TYPE=RelWithDebInfo -DCMAKE_CXX_FLAGS=-Wno-error \
  -DCOLVARS_TCL=OFF -DCOLVARS_LEPTON=OFF >"$B/configure.log" 2>&1 || { cat "$B/configure.log"; exit 2; }
cmake --build "$B" -j16 >"$B/build.log" 2>&1 || { tail -50 "$B/build.log"; exit 2; }
set +e
ctest --test-dir "$B" -j8 --timeout 900 --output-junit "$B/junit.xml" >"$B/ctest.log" 2>&1
tail -8 "$B/ctest.log"
python3 - "$B/junit.xml" <<'PY'
import sys, xml.etree.ElementTree as ET
r = ET.parse(sys.argv[1]).getroot()
tot = fail = 0
bad = []
for tc in r.iter("testcase"):
    tot += 1
    st = tc.get("status", "")
    if st not in ("run",) or tc.find("failure") is not None:
        fail += 1
        bad.append(tc.get("name"))
print("baseline_off: %d tests, %d not passed: %s" % (tot, fail, bad))
ok = all(b.startswith("customfunction") for b in bad) and tot - fail >= 92
sys.exit(0 if ok else 1)
PY
rc=$?
rm -rf "$B"
exit $rc
