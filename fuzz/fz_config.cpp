// fz_config: libFuzzer target feeding arbitrary bytes to Colvars as a *configuration* (property C09,
// totality part).
//
// Per input: fresh engine-simulator proxy (NATOMS atoms, fixed positions / masses / charges) and a
// fresh colvarmodule; the bytes go to colvarmodule::read_config_string(); if the configuration is
// accepted (return code COLVARS_OK and no error bits set) the first-call sequence of an engine is run
// (engine_init()) followed by two steps.  Nothing is caught: an uncaught C++ exception terminates the
// fuzzer exactly as it would terminate the host MD engine.
//
// Hermetic:
//  * no output prefix is set and every output stream the library may ask for is an in-memory stream;
//    backup / rename / remove of files are no-ops: no input can write a file through the proxy;
//  * the auxiliary files a configuration of the seed corpus names (index file, reference coordinates,
//    vectors) are registered *in memory* under their plain names with input_stream_from_string() before
//    the configuration is read.  Their contents are loaded once, at start-up, from the directory given
//    by the environment variable FZ_CONFIG_AUX (the monitor points it at /repo/tests/input_files); small
//    built-in defaults ("index.ndx", "refpos.xyz") exist in any case;
//  * the proxy does not echo anything to stdout / stderr.
// The monitor runs the target from an empty scratch directory, with stdin = /dev/null.
//
// With FZ_CONFIG_DUMP=1 in the environment the binary prints the engine state it uses
// ({"natoms":..,"pos":[..],"pos2":[..],"masses":[..],"charges":[..],"aux":[names]}) and exits.
#include <cstdint>
#include <cstdio>
#include <cstdlib>
#include <cstring>
#include <fstream>
#include <map>
#include <sstream>
#include <string>
#include <unistd.h>
#include <vector>

#include "colvarmodule.h"
#include "colvarproxy.h"

#include "verif_proxy.h"

namespace {

class fuzz_proxy : public verif_proxy {
public:
  explicit fuzz_proxy(int n) : verif_proxy(n) {}
  ~fuzz_proxy() override
  {
    for (auto &p : mem_out_) delete p.second;
  }
  std::ostream &output_stream(std::string const &name, std::string const) override
  {
    auto it = mem_out_.find(name);
    if (it == mem_out_.end()) it = mem_out_.insert(std::make_pair(name, new std::ostringstream())).first;
    return *(it->second);
  }
  bool output_stream_exists(std::string const &name) override { return mem_out_.count(name) > 0; }
  int flush_output_stream(std::string const &) override { return COLVARS_OK; }
  int flush_output_streams() override { return COLVARS_OK; }
  int close_output_stream(std::string const &name) override
  {
    auto it = mem_out_.find(name);
    if (it != mem_out_.end()) {
      delete it->second;
      mem_out_.erase(it);
    }
    return COLVARS_OK;
  }
  int close_output_streams() override
  {
    for (auto &p : mem_out_) delete p.second;
    mem_out_.clear();
    return COLVARS_OK;
  }
  int backup_file(char const *) override { return COLVARS_OK; }
  int remove_file(char const *) override { return COLVARS_OK; }
  int rename_file(char const *, char const *) override { return COLVARS_OK; }

private:
  std::map<std::string, std::ostringstream *> mem_out_;
};


int const NATOMS = 104;

struct engine_state {
  std::vector<double> pos, pos2, masses, charges;
};

// deterministic synthetic system: jittered 5x5x5 lattice (spacing 1.9), LCG noise; no two atoms closer
// than 0.9
engine_state const &engine()
{
  static engine_state st;
  if (st.pos.empty()) {
    uint64_t s = 0x9E3779B97F4A7C15ULL;
    auto rnd = [&s]() {
      s = s * 6364136223846793005ULL + 1442695040888963407ULL;
      return double((s >> 11) & ((1ULL << 53) - 1)) / 9007199254740992.0;
    };
    for (int k = 0; k < NATOMS; k++) {
      int const ix = k % 5, iy = (k / 5) % 5, iz = k / 25;
      double const base[3] = {1.9 * ix, 1.9 * iy, 1.9 * iz};
      for (int d = 0; d < 3; d++) {
        double const j = (rnd() - 0.5);
        st.pos.push_back(base[d] + j);
        st.pos2.push_back(base[d] + j + 0.2 * (rnd() - 0.5));
      }
      static double const m[4] = {12.011, 1.008, 14.007, 15.999};
      st.masses.push_back(m[k % 4]);
      st.charges.push_back(0.1 * double((k * 7) % 11 - 5));
    }
  }
  return st;
}


std::map<std::string, std::string> &aux_files()
{
  static std::map<std::string, std::string> m;
  return m;
}

char const *const AUX_NAMES[] = {"index.ndx", "rmsd_atoms_refpos.xyz", "rmsd_atoms_refpos2.xyz",
                                 "rmsd_atoms_random.xyz", "heavy_atoms_refpos.xyz",
                                 "eigenvectors-localmin", "refpos.xyz"};

void load_aux()
{
  std::map<std::string, std::string> &m = aux_files();
  // built-in defaults
  m["index.ndx"] = "[ group1 ]\n 1 2 3 4\n[ group2 ]\n 5 6 7 8 9 10\n[ RMSD_atoms ]\n"
                   " 11 12 13 14 15 16 17 18 19 20\n[ Protein ]\n";
  {
    std::ostringstream os;
    for (int i = 1; i <= NATOMS; i++) os << " " << i << ((i % 12 == 0) ? "\n" : "");
    m["index.ndx"] += os.str() + "\n";
  }
  {
    std::ostringstream os;
    os << "10\n built in\n";
    for (int i = 0; i < 10; i++) {
      os << "  CA  " << (1.0 + 1.5 * i) << " " << (0.5 * (i % 3)) << " " << (0.25 * (i % 4)) << "\n";
    }
    m["refpos.xyz"] = os.str();
  }
  char const *dir = getenv("FZ_CONFIG_AUX");
  if (dir && *dir) {
    for (char const *n : AUX_NAMES) {
      std::ifstream f((std::string(dir) + "/" + n).c_str(), std::ios::binary);
      if (f) {
        std::ostringstream os;
        os << f.rdbuf();
        if (os.str().size() && os.str().size() < (1u << 20)) m[n] = os.str();
      }
    }
  }
}

} // namespace


extern "C" int LLVMFuzzerInitialize(int *, char ***)
{
  load_aux();
  if (getenv("FZ_CONFIG_DUMP")) {
    engine_state const &e = engine();
    auto arr = [](std::vector<double> const &v) {
      std::string s = "[";
      char b[40];
      for (size_t i = 0; i < v.size(); i++) {
        snprintf(b, sizeof(b), "%s%.17g", i ? "," : "", v[i]);
        s += b;
      }
      return s + "]";
    };
    std::string names;
    for (auto const &p : aux_files()) names += std::string(names.size() ? "," : "") + "\"" + p.first + "\"";
    printf("{\"natoms\":%d,\"pos\":%s,\"pos2\":%s,\"masses\":%s,\"charges\":%s,\"aux\":[%s]}\n", NATOMS,
           arr(e.pos).c_str(), arr(e.pos2).c_str(), arr(e.masses).c_str(), arr(e.charges).c_str(),
           names.c_str());
    fflush(stdout);
    _exit(0);
  }
  return 0;
}


extern "C" int LLVMFuzzerTestOneInput(const uint8_t *data, size_t size)
{
  engine_state const &e = engine();

  fuzz_proxy *px = new fuzz_proxy(NATOMS);
  px->echo = false;
  px->tf_mode = verif_proxy::TF_SAME;
  px->set_target_temperature(300.0);
  px->set_integration_timestep(1.0);
  for (int k = 0; k < NATOMS; k++) {
    px->eng[k].x = cvm::rvector(e.pos[3 * k], e.pos[3 * k + 1], e.pos[3 * k + 2]);
    px->eng[k].mass = e.masses[k];
    px->eng[k].charge = e.charges[k];
  }
  px->colvars = new colvarmodule(px);

  for (auto const &p : aux_files()) px->input_stream_from_string(p.first, p.second);

  int const rc = px->colvars->read_config_string(std::string(reinterpret_cast<char const *>(data), size));

  if (rc == COLVARS_OK && cvm::get_error() == COLVARS_OK) {
    px->engine_init();
    px->engine_step(true, false);
    for (int k = 0; k < NATOMS; k++) {
      px->eng[k].x = cvm::rvector(e.pos2[3 * k], e.pos2[3 * k + 1], e.pos2[3 * k + 2]);
    }
    px->engine_step(true, false);
  }

  // the module first: while it is destroyed the proxy's overrides must still be alive
  delete px->colvars;
  px->colvars = nullptr;
  delete px;
  return 0;
}
