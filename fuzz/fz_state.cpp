// fz_state: libFuzzer target feeding arbitrary bytes to Colvars as a *state* (property C11, part d).
//
// input[0] % NCFG  selects one of the fixed configurations below,
// input[1] & 1     selects the channel: 0 = text ("input state string"), 1 = binary state buffer,
// input[2..]       is the state.
//
// Per input: fresh proxy + module, configuration, first-call sequence of an engine, then the state is
// offered through the same calls an engine uses (input_stream_from_string()/set_input_state_buffer()
// followed by setup_input()), then one step is taken.  Errors reported by Colvars are fine; crashes,
// sanitizer reports, hangs are not.
//
// Hermetic: no output prefix is set and every output stream the library may still ask for is an
// in-memory stream, so that no input can write a file.
//
// With FZ_STATE_DUMP=1 in the environment the binary prints its configurations as JSON lines
// ({"cfg":i,"name":..,"natoms":..,"pos":[..],"config":".."}) and exits: the monitor generates the
// seed corpus of valid states for exactly these configurations with esim.
#include <cstdint>
#include <cstdio>
#include <cstdlib>
#include <cstring>
#include <map>
#include <sstream>
#include <unistd.h>
#include <string>
#include <vector>

#include "colvarmodule.h"
#include "colvarproxy.h"

#include "verif_proxy.h"

namespace {

class fuzz_proxy : public verif_proxy {
public:
  explicit fuzz_proxy(int n) : verif_proxy(n) {}
  ~fuzz_proxy() override
  {
    for (auto &p : mem_out_) delete p.second;
  }
  std::ostream &output_stream(std::string const &name, std::string const) override
  {
    auto it = mem_out_.find(name);
    if (it == mem_out_.end()) it = mem_out_.insert(std::make_pair(name, new std::ostringstream())).first;
    return *(it->second);
  }
  bool output_stream_exists(std::string const &name) override { return mem_out_.count(name) > 0; }
  int flush_output_stream(std::string const &) override { return COLVARS_OK; }
  int flush_output_streams() override { return COLVARS_OK; }
  int close_output_stream(std::string const &name) override
  {
    auto it = mem_out_.find(name);
    if (it != mem_out_.end()) {
      delete it->second;
      mem_out_.erase(it);
    }
    return COLVARS_OK;
  }
  int close_output_streams() override
  {
    for (auto &p : mem_out_) delete p.second;
    mem_out_.clear();
    return COLVARS_OK;
  }
  int backup_file(char const *) override { return COLVARS_OK; }

private:
  std::map<std::string, std::ostringstream *> mem_out_;
};

char const *const CV_D =
    "colvar {\n  name d\n  width 0.5\n  lowerBoundary 0.0\n  upperBoundary 4.0\n"
    "  distance {\n    group1 { atomNumbers 1 2 }\n    group2 { atomNumbers 3 4 }\n  }\n}\n";

struct cfg_t {
  char const *name;
  std::string text;
};

std::vector<cfg_t> const &configs()
{
  static std::vector<cfg_t> const c = {
      {"harmonic_moving",
       std::string("colvarsTrajFrequency 0\n") + CV_D +
           "harmonic {\n  name h\n  colvars d\n  centers 1.0\n  targetCenters 3.0\n"
           "  targetNumSteps 100\n  forceConstant 2.0\n  outputEnergy on\n}\n"},
      {"abf",
       std::string("colvarsTrajFrequency 0\n") + CV_D +
           "abf {\n  name a\n  colvars d\n  fullSamples 2\n  historyFreq 0\n}\n"},
      {"meta_grids_hills",
       std::string("colvarsTrajFrequency 0\n") + CV_D +
           "metadynamics {\n  name m\n  colvars d\n  hillWeight 0.1\n  hillWidth 1.0\n"
           "  newHillFrequency 2\n  useGrids on\n  keepHills on\n}\n"},
      {"histogram",
       std::string("colvarsTrajFrequency 0\n") + CV_D + "histogram {\n  name hi\n  colvars d\n}\n"},
      {"extended_lagrangian",
       "colvarsTrajFrequency 0\n"
       "colvar {\n  name d\n  width 0.5\n  lowerBoundary 0.0\n  upperBoundary 4.0\n"
       "  extendedLagrangian on\n  extendedFluctuation 0.2\n  extendedTimeConstant 50.0\n"
       "  outputVelocity on\n"
       "  distance {\n    group1 { atomNumbers 1 2 }\n    group2 { atomNumbers 3 4 }\n  }\n}\n"
       "harmonic {\n  name h\n  colvars d\n  centers 1.5\n  forceConstant 1.0\n}\n"},
      {"multi",
       std::string("colvarsTrajFrequency 0\n") + CV_D +
           "colvar {\n  name v\n  distanceVec {\n    group1 { atomNumbers 1 }\n"
           "    group2 { atomNumbers 4 }\n  }\n}\n"
           "colvar {\n  name u\n  distanceDir {\n    group1 { atomNumbers 2 }\n"
           "    group2 { atomNumbers 3 }\n  }\n}\n"
           "abf {\n  name a\n  colvars d\n  fullSamples 2\n  historyFreq 0\n}\n"
           "harmonic {\n  name hv\n  colvars v\n  centers (2.0, 0.0, 0.5)\n  forceConstant 0.5\n}\n"
           "harmonic {\n  name hu\n  colvars u\n  centers (1.0, 0.0, 0.0)\n"
           "  targetCenters (0.0, 1.0, 0.0)\n  targetNumSteps 50\n  forceConstant 3.0\n}\n"
           "metadynamics {\n  name m\n  colvars d\n  hillWeight 0.1\n  hillWidth 1.0\n"
           "  newHillFrequency 2\n  useGrids on\n  keepHills on\n}\n"
           "histogram {\n  name hi\n  colvars d\n}\n"},
      // a vector-valued variable: its hills carry length-prefixed vectors in the binary format
      {"meta_vector_hills",
       "colvarsTrajFrequency 0\n"
       "colvar {\n  name c\n  cartesian {\n    atoms { atomNumbers 1 2 }\n  }\n}\n"
       "metadynamics {\n  name m\n  colvars c\n  hillWeight 0.1\n  hillWidth 1.0\n"
       "  newHillFrequency 2\n  useGrids off\n}\n"},
      // staged restraints: the state carries the current stage, which indexes the schedule (lambdaSchedule: a vector)
      {"harmonic_staged",
       std::string("colvarsTrajFrequency 0\n") + CV_D +
           "harmonic {\n  name hk\n  colvars d\n  centers 1.0\n  forceConstant 1.0\n  targetForceConstant 5.0\n"
           "  targetNumSteps 2\n  lambdaSchedule 0.0 0.2 0.6 1.0\n}\n"
           "harmonic {\n  name hc\n  colvars d\n  centers 1.0\n  targetCenters 3.0\n  forceConstant 2.0\n"
           "  targetNumSteps 2\n  targetNumStages 3\n}\n"},
  };
  return c;
}

int const NATOMS = 4;
double const POS[12] = {0.0, 0.0, 0.0, 0.5, 0.0, 0.0, 2.0, 0.25, 0.0, 2.5, 0.0, 0.5};

std::string jesc(std::string const &s)
{
  std::string r = "\"";
  char buf[8];
  for (char c : s) {
    if (c == '"' || c == '\\') {
      r.push_back('\\');
      r.push_back(c);
    } else if (c == '\n') {
      r += "\\n";
    } else if ((unsigned char)c < 0x20) {
      snprintf(buf, sizeof(buf), "\\u%04x", (unsigned)(unsigned char)c);
      r += buf;
    } else {
      r.push_back(c);
    }
  }
  return r + "\"";
}

} // namespace


extern "C" int LLVMFuzzerInitialize(int *, char ***)
{
  if (getenv("FZ_STATE_DUMP")) {
    for (size_t i = 0; i < configs().size(); i++) {
      std::string pos;
      for (int k = 0; k < 3 * NATOMS; k++) {
        char b[40];
        snprintf(b, sizeof(b), "%s%.17g", k ? "," : "", POS[k]);
        pos += b;
      }
      printf("{\"cfg\":%zu,\"name\":\"%s\",\"natoms\":%d,\"pos\":[%s],\"config\":%s}\n", i,
             configs()[i].name, NATOMS, pos.c_str(), jesc(configs()[i].text).c_str());
    }
    fflush(stdout);
    _exit(0);
  }
  return 0;
}


extern "C" int LLVMFuzzerTestOneInput(const uint8_t *data, size_t size)
{
  if (size < 2) return 0;
  size_t const ci = size_t(data[0]) % configs().size();
  bool const binary = (data[1] & 1) != 0;
  data += 2;
  size -= 2;

  fuzz_proxy *px = new fuzz_proxy(NATOMS);
  px->tf_mode = verif_proxy::TF_SAME;
  px->set_target_temperature(300.0);
  px->set_integration_timestep(1.0);
  for (int k = 0; k < NATOMS; k++) px->eng[k].x = cvm::rvector(POS[3 * k], POS[3 * k + 1], POS[3 * k + 2]);
  px->colvars = new colvarmodule(px);
  px->colvars->cv_traj_freq = 0;
  px->colvars->restart_out_freq = 0;

  px->colvars->read_config_string(configs()[ci].text);
  px->engine_init();
  cvm::clear_error();
  px->err_lines.clear();

  if (binary) {
    std::vector<unsigned char> buf(data, data + size);
    px->colvars->set_input_state_buffer(buf);
  } else {
    px->input_stream_from_string("input state string",
                                 std::string(reinterpret_cast<char const *>(data), size));
  }
  px->colvars->setup_input();
  cvm::clear_error();
  px->err_lines.clear();

  px->engine_step(true, false);

  // the module first: while it is destroyed the proxy's overrides must still be alive
  delete px->colvars;
  px->colvars = nullptr;
  delete px;
  return 0;
}
