// fz_script: libFuzzer target driving the Colvars scripting interface (property C20, totality part).
//
// Per input: a fresh engine-simulator proxy (NATOMS atoms) and a fresh colvarmodule, the fixed
// configuration KNOWN_CONFIG (2 variables, a harmonic restraint, a metadynamics bias), the first-call
// sequence of an engine and one step.  The input bytes are then decoded into a sequence of
// run_colvarscript_command(objc, objv) calls interleaved with engine steps / run boundaries:
//
//   record := op byte, then
//     op & 15 in 0..9   table command:  cmd byte (index into the command table harvested at run time with
//                       cvscript_n_commands()/cvscript_command_names(): cv_xxx -> "cv xxx",
//                       colvar_xxx -> "cv colvar <name> xxx", bias_xxx -> "cv bias <name> xxx"),
//                       obj byte (object name: existing / other kind / missing / deleted later / empty / long),
//                       nargs byte (low 3 bits: 0,7 = minimum, 1 = maximum, 2 = one missing, 3 = one surplus,
//                       4 = three surplus, 5 = between, 6 = none), then one value per argument
//     op & 15 == 10,14,15  one engine step (positions move deterministically with the step count)
//     op & 15 == 11     begin a new run (the next step repeats the current one), 13: end of run (post_run)
//     op & 15 == 12     raw command: ntok byte (0..7), then ntok values -> objv as is
//   value  := sel byte: < 0xEE: VALUES[sel % nvalues]; 0xEE: result string of the previous command;
//             0xEF: state string saved after the initial step; >= 0xF0: literal: length byte + raw bytes
//   missing bytes read as 0; at most 48 commands and 24 steps per input.
// Before every command the stack below the harness is filled with 0xAA (scribble_stack) so that reads of
// uninitialised locals are reproducible.
//
// Hermetic: '/' is removed from every argument (file names and paths inside configuration text stay
// inside the working directory); the working directory is a scratch directory created once per process
// (mkdtemp under $FZ_SCRIPT_SCRATCH or the current directory, then chdir) and emptied before every
// input; no output prefix is set by the harness; "mem.conf" is registered as an in-memory input stream.
//
// Epilogue after every sequence ("leaves the module usable"): cv reset, engine-owned settings restored
// (cv units / timestep / targettemperature), cv config KNOWN_CONFIG, one step at fixed coordinates; its
// events (return codes, error bits, values, applied forces, bias energies, add_energy arguments, atomic
// forces, number of active atoms) must equal, bit for bit, those of the same epilogue on a pristine
// module (computed once at start-up).  On a mismatch both records are printed after the marker
// "FZ_SCRIPT EPILOGUE MISMATCH" and abort() is called so that libFuzzer keeps the input.
//
// Environment:
//   FZ_SCRIPT_DUMP=1    print {"commands":[{name,min,max}],"values":[...],"colvars":[..],"biases":[..],
//                       "config":..} and exit (the monitor builds its seed corpus from this)
//   FZ_SCRIPT_TRACE=1   print every decoded command, its return code and the head of its result to stderr
//   FZ_SCRIPT_STATS=dir write dir/<pid>.stats ("name well-formed-calls malformed-calls ok-returns" per
//                       command, "#inputs N", "#commands N", "#steps N") every FZ_SCRIPT_STATS_EVERY (256)
//                       inputs and at exit
#include <cerrno>
#include <cmath>
#include <cstdint>
#include <cstdio>
#include <cstdlib>
#include <cstring>
#include <dirent.h>
#include <map>
#include <sstream>
#include <string>
#include <sys/stat.h>
#include <unistd.h>
#include <vector>

#include "colvarmodule.h"
#include "colvar.h"
#include "colvarbias.h"
#include "colvarproxy.h"
#include "colvarscript.h"

#include "verif_proxy.h"

// query functions of the command table (defined in colvarscript_commands.cpp)
extern "C" {
int cvscript_n_commands();
char const **cvscript_command_names();
int cvscript_command_n_args_min(char const *cmd);
int cvscript_command_n_args_max(char const *cmd);
}

namespace {

int const NATOMS = 16;

char const *const KNOWN_CONFIG =
    "colvarsTrajFrequency 0\n"
    "colvarsRestartFrequency 0\n"
    "colvar {\n  name d\n  width 0.5\n  lowerBoundary 0.0\n  upperBoundary 6.0\n"
    "  distance {\n    group1 { atomNumbers 1 2 }\n    group2 { atomNumbers 3 4 }\n  }\n}\n"
    "colvar {\n  name v\n  distanceVec {\n    group1 { atomNumbers 5 }\n    group2 { atomNumbers 6 7 }\n  }\n}\n"
    // default names (harmonic1, metadynamics1): they depend on the per-type counters that cv reset must clear
    "harmonic {\n  colvars v\n  centers (1.0, 0.0, 0.5)\n  forceConstant 2.0\n}\n"
    "metadynamics {\n  colvars d\n  hillWeight 0.1\n  hillWidth 1.0\n  newHillFrequency 1\n}\n";

char const *const MEM_CONF =
    "colvar {\n  name w\n  angle {\n    group1 { atomNumbers 8 }\n    group2 { atomNumbers 9 }\n"
    "    group3 { atomNumbers 10 }\n  }\n}\n";

struct cmd_t {
  std::string name;   // cv_xxx / colvar_xxx / bias_xxx
  int kind;           // 0 module, 1 colvar, 2 bias
  std::string sub;
  int nmin, nmax;
};

std::vector<cmd_t> commands;
std::vector<std::string> values;
std::string reference_digest;
std::string scratch_dir;
bool trace = false;
std::string stats_dir;

struct stat_t {
  long wf = 0, mf = 0, ok = 0;
};
std::map<std::string, stat_t> stats;
long n_inputs = 0, n_commands = 0, n_steps = 0;
long stats_every = 256;

char const *const OBJ_COLVARS[] = {"d", "v"};
char const *const OBJ_BIASES[] = {"harmonic1", "metadynamics1"};


void build_values()
{
  char const *const fixed[] = {
      // numbers, well formed and not
      "0", "1", "2", "-1", "0.5", "1e308", "-1e308", "nan", "inf", "1e-320", "2147483648", "-2147483649",
      "9223372036854775808", "0x10", "1 2 3", "( 1 , 2 , 3 )", "(1,2,3)", "( 1 , 2", "( 0.5 , 0.25 , 0.125 )",
      "1.0 2.0 3.0 4.0", "{ 1 2 3 }", "1e", "--1", "1,5",
      // junk
      "", "abc", " ", "\n", "\"", "\"unterminated", "\"a\" \"b\"", "%s%n%s", "\xff\xfe\xfd", "{", "}", "# x",
      // object and keyword names
      "d", "v", "harmonic1", "metadynamics1", "w", "nope", "colvars", "biases", "colvar", "bias", "help", "cv",
      // feature names and switches
      "active", "awake", "gradient", "collect_gradient", "total_force", "apply_force", "output_value",
      "scalar", "linear", "periodic", "apply_bias", "output_energy", "step_zero_data", "extended_Lagrangian",
      "velocity_from_finite_differences", "total_force_calculation", "subtract_applied_force", "on", "off",
      "yes", "no",
      // sub-command names
      "config", "units", "getenergy", "value", "energy", "delete", "update", "save", "load", "cv_config",
      "colvar_value", "bias_energy",
      // unit systems
      "real", "metal", "gromacs", "electron",
      // file names (relative: the working directory is the scratch directory)
      "st", "st.colvars.state", "out", "missing", "mem.conf", ".colvars.state", "st.colvars.traj", ".", "..",
      // cvc flags / modifycvcs
      "1 1", "0", "0 0 0", "1 0 1 0 1", "\"componentCoeff 2.0\"", "\"\" \"componentExp 2\"", "\"name x\"",
      // configuration snippets
      "colvar {\n name w\n distance {\n group1 { atomNumbers 8 }\n group2 { atomNumbers 9 10 }\n }\n}\n",
      "colvar {\n name u\n outputAppliedForce on\n distanceDir {\n group1 { atomNumbers 11 }\n group2 { atomNumbers 12 }\n }\n}\n",
      "colvar {\n name e\n extendedLagrangian on\n extendedFluctuation 0.2\n extendedTimeConstant 20\n outputTotalForce on\n"
      " distance {\n group1 { atomNumbers 13 }\n group2 { atomNumbers 14 }\n }\n}\n",
      "colvar {\n name q\n orientation {\n atoms { atomNumbers 1 2 3 4 5 }\n refPositions (0,0,0) (1,0,0) (0,1,0) (0,0,1) (1,1,1)\n }\n}\n",
      "harmonicWalls {\n name hw\n colvars d\n lowerWalls 1.0\n upperWalls 2.0\n forceConstant 3.0\n}\n",
      "abf {\n name a\n colvars d\n fullSamples 2\n}\n",
      "histogram {\n name hi\n colvars d\n}\n",
      "linear {\n name li\n colvars d\n centers 1.0\n forceConstant 0.5\n}\n",
      "harmonic {\n name h2\n colvars d\n centers 1.0\n targetCenters 3.0\n targetNumSteps 5\n forceConstant 1.0\n outputAccumulatedWork on\n}\n",
      "metadynamics {\n name m2\n colvars d v\n hillWeight 0.1\n hillWidth 1.0\n newHillFrequency 2\n useGrids off\n}\n",
      "colvarsTrajFrequency 1\ncolvarsRestartFrequency 2\n",
      "scriptedColvarForces on\n",
      "colvar {", "harmonic {\n colvars nope\n}\n", "colvar {\n name d\n}\n", "indexFile missing.ndx\n",
      "units gromacs\n", "smp off\n",
      "colvar {\n name r\n runAve on\n runAveLength 2\n corrFunc on\n corrFuncLength 2\n corrFuncType coordinate\n"
      " distance {\n group1 { atomNumbers 15 }\n group2 { atomNumbers 16 }\n }\n}\n",
      // state fragments
      "configuration {\n step 5\n dt 1.0\n version 2023-01-01\n}\n",
      "colvar {\n name d\n x 1.0\n}\n", "metadynamics {\n configuration {\n step 3\n name metadynamics1\n}\n hill {\n step 1\n weight 0.1\n centers 1.0\n widths 0.5\n}\n}\n",
  };
  for (char const *s : fixed) values.push_back(s);
  values.push_back(std::string(5000, 'x'));
  {
    std::string s;
    for (int i = 0; i < 3000; i++) s += "1 ";
    values.push_back(s);
  }
  values.push_back(std::string("colvar {\n name ") + std::string(600, 'n') + "\n distance {\n group1 { atomNumbers 1 }\n group2 { atomNumbers 2 }\n }\n}\n");
  values.push_back(KNOWN_CONFIG);
}


void harvest_commands()
{
  int const n = cvscript_n_commands();
  char const **names = cvscript_command_names();
  for (int i = 0; i < n; i++) {
    cmd_t c;
    c.name = names[i];
    if (c.name.compare(0, 3, "cv_") == 0) {
      c.kind = 0;
      c.sub = c.name.substr(3);
    } else if (c.name.compare(0, 7, "colvar_") == 0) {
      c.kind = 1;
      c.sub = c.name.substr(7);
    } else if (c.name.compare(0, 5, "bias_") == 0) {
      c.kind = 2;
      c.sub = c.name.substr(5);
    } else {
      continue;
    }
    c.nmin = cvscript_command_n_args_min(names[i]);
    c.nmax = cvscript_command_n_args_max(names[i]);
    commands.push_back(c);
  }
}


std::string jesc(std::string const &s, size_t maxlen = std::string::npos)
{
  std::string r = "\"";
  char buf[8];
  size_t n = 0;
  for (unsigned char c : s) {
    if (n++ >= maxlen) {
      r += "...";
      break;
    }
    if (c == '"' || c == '\\') {
      r.push_back('\\');
      r.push_back(char(c));
    } else if (c == '\n') {
      r += "\\n";
    } else if (c < 0x20 || c >= 0x7f) {
      snprintf(buf, sizeof(buf), "\\u%04x", unsigned(c));
      r += buf;
    } else {
      r.push_back(char(c));
    }
  }
  return r + "\"";
}


void set_positions(verif_proxy *px, long step)
{
  for (int k = 0; k < NATOMS; k++) {
    double const a = 0.37 * double(step) + 1.3 * double(k);
    px->eng[k].x = cvm::rvector(1.7 * (k % 4) + 0.3 * std::sin(a), 1.9 * ((k / 4) % 4) + 0.3 * std::cos(1.7 * a),
                                0.8 * (k % 3) + 0.3 * std::sin(0.6 * a + 1.0));
    px->eng[k].fext = cvm::rvector(0.5 * std::cos(a), -0.25 * std::sin(a), 0.125 * std::cos(2.0 * a));
  }
}


verif_proxy *new_engine()
{
  verif_proxy *px = new verif_proxy(NATOMS);
  px->echo = false;
  px->tf_mode = verif_proxy::TF_SAME;
  px->set_target_temperature(300.0);
  px->set_integration_timestep(1.0);
  for (int k = 0; k < NATOMS; k++) {
    px->eng[k].mass = 1.0 + 0.5 * (k % 5);
    px->eng[k].charge = 0.1 * double((k * 7) % 11 - 5);
  }
  set_positions(px, 0);
  px->colvars = new colvarmodule(px);
  px->colvars->cv_traj_freq = 0;
  px->colvars->restart_out_freq = 0;
  px->input_stream_from_string("mem.conf", MEM_CONF);
  return px;
}


void delete_engine(verif_proxy *px)
{
  // the module first: while it is destroyed the proxy's overrides must still be alive
  delete px->colvars;
  px->colvars = nullptr;
  delete px;
}


/// Overwrite the part of the stack the next call will use with a fixed non-zero pattern, so that a read of an
/// uninitialised local variable sees the same (implausible) bytes in every execution: such reads then fail
/// reproducibly (e.g. UBSan: 0xAA is not a valid bool) instead of depending on what earlier calls left behind.
__attribute__((noinline)) void scribble_stack()
{
  volatile unsigned char buf[32768];
  for (size_t i = 0; i < sizeof(buf); i++) buf[i] = 0xAA;
}


int run_cmd(std::vector<std::string> const &args, std::string *result)
{
  scribble_stack();
  std::vector<unsigned char *> argv;
  for (auto const &w : args) argv.push_back(reinterpret_cast<unsigned char *>(const_cast<char *>(w.c_str())));
  if (trace) {
    // printed before the call, so that the command that crashes is the last line of the trace
    std::string line = "FZ_SCRIPT cmd [";
    for (size_t i = 0; i < args.size(); i++) line += (i ? "," : "") + jesc(args[i], 200);
    fprintf(stderr, "%s]\n", line.c_str());
  }
  // as the Tcl front end does before every command
  cvm::clear_error();
  int const rc = run_colvarscript_command(int(argv.size()), argv.data());
  char const *res = get_colvarscript_result();
  if (result) *result = res ? res : "";
  if (trace) {
    fprintf(stderr, "FZ_SCRIPT   -> rc=%d err=%d res=%s\n", rc, cvm::get_error(), jesc(res ? res : "", 120).c_str());
  }
  return rc;
}


std::string num17(double x)
{
  char b[40];
  snprintf(b, sizeof(b), "%.17g", x);
  return b;
}


/// The fixed epilogue; returns its record
std::string epilogue(verif_proxy *px)
{
  std::ostringstream os;
  std::string res;
  int rc = run_cmd({"cv", "reset"}, &res);
  os << "reset rc=" << rc << " err=" << cvm::get_error() << "\n";
  run_cmd({"cv", "units", "real"}, &res);
  run_cmd({"cv", "timestep", "1.0"}, &res);
  run_cmd({"cv", "targettemperature", "300.0"}, &res);
  px->tf_mode = verif_proxy::TF_SAME;
  rc = run_cmd({"cv", "config", KNOWN_CONFIG}, &res);
  os << "config rc=" << rc << " err=" << cvm::get_error() << " ncv=" << px->colvars->variables()->size()
     << " nbias=" << px->colvars->biases.size() << "\n";
  cvm::clear_error();
  px->err_lines.clear();
  set_positions(px, 1000);
  px->new_run_pending = false;   // a pending run boundary of the sequence is not part of the epilogue
  int const src = px->engine_step(true, false);
  os << "step rc=" << src << " err=" << cvm::get_error() << " nact=" << px->get_num_active_atoms() << "\n";
  for (colvar *c : *(px->colvars->variables())) {
    os << "cv " << c->name << " x";
    colvarvalue const x = c->value();
    for (size_t i = 0; i < x.size(); i++) os << " " << num17(x[int(i)]);
    colvarvalue const f = c->applied_force();
    os << " fa";
    for (size_t i = 0; i < f.size(); i++) os << " " << num17(f[int(i)]);
    os << "\n";
  }
  for (colvarbias *b : px->colvars->biases) os << "bias " << b->name << " e " << num17(b->get_energy()) << "\n";
  os << "en";
  for (double e : px->energies) os << " " << num17(e);
  os << "\naf";
  for (int k = 0; k < NATOMS; k++) {
    cvm::rvector const f = px->applied_force(k);
    os << " " << num17(f.x) << " " << num17(f.y) << " " << num17(f.z);
  }
  os << "\n";
  if (px->err_lines.size()) os << "errors: " << px->err_lines[0] << "\n";
  return os.str();
}


void initial_sequence(verif_proxy *px, std::string *state)
{
  px->colvars->read_config_string(KNOWN_CONFIG);
  px->engine_init();
  cvm::clear_error();
  px->err_lines.clear();
  px->engine_step(true, false);
  if (state) px->colvars->write_restart_string(*state);
}


void clean_scratch()
{
  DIR *d = opendir(".");
  if (!d) return;
  std::vector<std::string> names;
  while (struct dirent *e = readdir(d)) {
    if (strcmp(e->d_name, ".") && strcmp(e->d_name, "..")) names.push_back(e->d_name);
  }
  closedir(d);
  for (auto const &n : names) {
    if (unlink(n.c_str()) != 0) rmdir(n.c_str());
  }
}


void write_stats()
{
  if (stats_dir.empty()) return;
  std::string const path = stats_dir + "/" + std::to_string(long(getpid())) + ".stats";
  std::string const tmp = path + ".tmp";
  FILE *f = fopen(tmp.c_str(), "w");
  if (!f) return;
  fprintf(f, "#inputs %ld\n#commands %ld\n#steps %ld\n", n_inputs, n_commands, n_steps);
  for (auto const &p : stats) fprintf(f, "%s %ld %ld %ld\n", p.first.c_str(), p.second.wf, p.second.mf, p.second.ok);
  fclose(f);
  rename(tmp.c_str(), path.c_str());
}

struct stats_at_exit {
  ~stats_at_exit() { write_stats(); }
} stats_at_exit_instance;


struct reader {
  uint8_t const *p;
  size_t n, i;
  bool exhausted() const { return i >= n; }
  uint8_t byte() { return i < n ? p[i++] : (i++, uint8_t(0)); }
};


std::string strip_slash(std::string s)
{
  std::string r;
  r.reserve(s.size());
  for (char c : s) {
    if (c != '/' && c != '\0') r.push_back(c);
  }
  return r;
}


std::string read_value(reader &rd, std::string const &last_result, std::string const &state0)
{
  uint8_t const sel = rd.byte();
  if (sel == 0xEE) return strip_slash(last_result);
  if (sel == 0xEF) return strip_slash(state0);
  if (sel >= 0xF0) {
    size_t const len = rd.byte();
    std::string s;
    for (size_t k = 0; k < len && !rd.exhausted(); k++) s.push_back(char(rd.byte()));
    return strip_slash(s);
  }
  return strip_slash(values[sel % values.size()]);
}

} // namespace


extern "C" int LLVMFuzzerInitialize(int *, char ***)
{
  if (getenv("FZ_SCRIPT_STATS")) stats_dir = getenv("FZ_SCRIPT_STATS");
  if (getenv("FZ_SCRIPT_STATS_EVERY")) stats_every = atol(getenv("FZ_SCRIPT_STATS_EVERY"));
  if (stats_every < 1) stats_every = 1;
  build_values();
  // scratch directory, created once
  {
    char const *base = getenv("FZ_SCRIPT_SCRATCH");
    char cwd[4096];
    std::string b = base && *base ? std::string(base) : std::string(getcwd(cwd, sizeof(cwd)) ? cwd : ".");
    std::string tmpl = b + "/fzs_XXXXXX";
    std::vector<char> buf(tmpl.begin(), tmpl.end());
    buf.push_back('\0');
    if (!mkdtemp(buf.data()) || chdir(buf.data()) != 0) {
      fprintf(stderr, "fz_script: cannot create scratch directory under %s\n", b.c_str());
      _exit(3);
    }
    scratch_dir = buf.data();
  }
  // command table + reference epilogue on a pristine module
  {
    verif_proxy *px = new_engine();
    harvest_commands();
    initial_sequence(px, nullptr);
    reference_digest = epilogue(px);
    delete_engine(px);
    clean_scratch();
    // on a pristine module the epilogue itself must succeed
    if (reference_digest.find("reset rc=0 err=0\nconfig rc=0 err=0 ncv=2 nbias=2\nstep rc=0 err=0 ") != 0 ||
        reference_digest.find("errors:") != std::string::npos) {
      fprintf(stderr, "FZ_SCRIPT REFERENCE EPILOGUE FAILED\n%s", reference_digest.c_str());
      fflush(stderr);
      abort();
    }
  }
  trace = getenv("FZ_SCRIPT_TRACE") != nullptr;   // (the reference epilogue above is not traced)
  if (getenv("FZ_SCRIPT_DUMP")) {
    std::string s = "{\"commands\":[";
    for (size_t i = 0; i < commands.size(); i++) {
      s += std::string(i ? "," : "") + "{\"name\":" + jesc(commands[i].name) + ",\"min\":" +
           std::to_string(commands[i].nmin) + ",\"max\":" + std::to_string(commands[i].nmax) + "}";
    }
    s += "],\"values\":[";
    for (size_t i = 0; i < values.size(); i++) s += std::string(i ? "," : "") + jesc(values[i]);
    s += "],\"colvars\":[\"d\",\"v\"],\"biases\":[\"harmonic1\",\"metadynamics1\"],\"natoms\":" + std::to_string(NATOMS) +
         ",\"config\":" + jesc(KNOWN_CONFIG) + ",\"reference\":" + jesc(reference_digest) + "}";
    printf("%s\n", s.c_str());
    fflush(stdout);
    if (chdir("..") == 0) rmdir(scratch_dir.c_str());
    _exit(0);
  }
  return 0;
}


extern "C" int LLVMFuzzerTestOneInput(const uint8_t *data, size_t size)
{
  clean_scratch();
  n_inputs++;
  verif_proxy *px = new_engine();
  std::string state0;
  initial_sequence(px, &state0);

  reader rd{data, size, 0};
  std::string last_result;
  int ncmd = 0, nstep = 0;
  long step = 1;
  while (!rd.exhausted() && ncmd < 48) {
    uint8_t const op = rd.byte() & 15;
    if (op == 10 || op >= 14) {
      if (nstep++ >= 24) continue;
      set_positions(px, step++);
      cvm::clear_error();
      px->engine_step(true, false);
      n_steps++;
      if (trace) fprintf(stderr, "FZ_SCRIPT step it=%lld err=%d\n", (long long)cvm::step_absolute(), cvm::get_error());
      continue;
    }
    if (op == 11) {
      px->begin_run();
      if (trace) fprintf(stderr, "FZ_SCRIPT newrun\n");
      continue;
    }
    if (op == 13) {
      cvm::clear_error();
      px->end_run();
      if (trace) fprintf(stderr, "FZ_SCRIPT endrun\n");
      continue;
    }
    std::vector<std::string> args;
    if (op == 12) {
      int const ntok = rd.byte() & 7;
      for (int k = 0; k < ntok; k++) args.push_back(read_value(rd, last_result, state0));
      ncmd++;
      n_commands++;
      run_cmd(args, &last_result);
      continue;
    }
    // table command
    cmd_t const &c = commands[rd.byte() % commands.size()];
    uint8_t const osel = rd.byte();
    uint8_t const nsel = rd.byte() & 7;
    bool wellformed = true;
    args.push_back("cv");
    if (c.kind == 0) {
      args.push_back(c.sub);
    } else {
      args.push_back(c.kind == 1 ? "colvar" : "bias");
      char const *const *own = c.kind == 1 ? OBJ_COLVARS : OBJ_BIASES;
      char const *const *other = c.kind == 1 ? OBJ_BIASES : OBJ_COLVARS;
      std::string name;
      switch (osel % 12) {
      case 0: case 1: case 2: case 3: name = own[0]; break;
      case 4: case 5: case 6: name = own[1]; break;
      case 7: name = c.kind == 1 ? "w" : "hw"; break;   // defined only if an earlier command did so
      case 8: name = other[osel & 1]; break;
      case 9: name = "nope"; break;
      case 10: name = ""; break;
      default: name = std::string(300, 'o'); break;
      }
      bool exists = (c.kind == 1) ? (cvm::colvar_by_name(name) != nullptr) : (cvm::bias_by_name(name) != nullptr);
      if (!exists) wellformed = false;
      args.push_back(name);
      args.push_back(c.sub);
    }
    int nargs = c.nmin;
    switch (nsel) {
    case 1: nargs = c.nmax; break;
    case 2: nargs = c.nmin - 1; break;
    case 3: nargs = c.nmax + 1; break;
    case 4: nargs = c.nmax + 3; break;
    case 5: nargs = (c.nmin + c.nmax + 1) / 2; break;
    case 6: nargs = 0; break;
    default: break;
    }
    if (nargs < 0) nargs = 0;
    if (nargs < c.nmin || nargs > c.nmax) wellformed = false;
    for (int k = 0; k < nargs; k++) args.push_back(read_value(rd, last_result, state0));
    ncmd++;
    n_commands++;
    int const rc = run_cmd(args, &last_result);
    stat_t &st = stats[c.name];
    if (wellformed) st.wf++;
    else st.mf++;
    if (rc == COLVARS_OK) st.ok++;
  }

  std::string const got = epilogue(px);
  if (got != reference_digest) {
    fprintf(stderr, "FZ_SCRIPT EPILOGUE MISMATCH\n--- reference ---\n%s--- after this sequence ---\n%s--- end ---\n",
            reference_digest.c_str(), got.c_str());
    fflush(stderr);
    abort();
  }
  delete_engine(px);
  if ((n_inputs % stats_every) == 0) write_stats();
  return 0;
}
