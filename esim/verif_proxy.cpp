// Engine simulator proxy: see verif_proxy.h
#include <algorithm>
#include <cerrno>
#include <cmath>
#include <cstdio>
#include <cstring>
#include <fcntl.h>
#include <iostream>
#include <sstream>
#include <sys/stat.h>
#include <thread>
#include <unistd.h>

#include "colvarmodule.h"
#include "colvar.h"
#include "colvarbias.h"
#include "colvarscript.h"
#include "colvarproxy.h"
#include "colvars_version.h"

#include "verif_proxy.h"

thread_local int verif_proxy::tl_thread_id_ = 0;

namespace vjson {
std::string esc(std::string const &s)
{
  std::string o;
  o.reserve(s.size() + 2);
  o.push_back('"');
  for (unsigned char c : s) {
    switch (c) {
    case '"': o += "\\\""; break;
    case '\\': o += "\\\\"; break;
    case '\n': o += "\\n"; break;
    case '\r': o += "\\r"; break;
    case '\t': o += "\\t"; break;
    default:
      if (c < 0x20 || c >= 0x7f) {
        char b[8];
        snprintf(b, sizeof(b), "\\u%04x", c);
        o += b;
      } else {
        o.push_back(c);
      }
    }
  }
  o.push_back('"');
  return o;
}
std::string num(double x)
{
  if (std::isnan(x)) return "\"nan\"";
  if (std::isinf(x)) return x > 0 ? "\"inf\"" : "\"-inf\"";
  char b[40];
  snprintf(b, sizeof(b), "%.17g", x);
  return b;
}
std::string vec(cvm::rvector const &v)
{
  return "[" + num(v.x) + "," + num(v.y) + "," + num(v.z) + "]";
}
std::string val(colvarvalue const &v)
{
  std::string o = "[";
  size_t const n = v.size();
  for (size_t i = 0; i < n; i++) {
    if (i) o += ",";
    o += num(v[int(i)]);
  }
  return o + "]";
}
} // namespace vjson


verif_proxy::verif_proxy(int natoms, bool /*quiet_stdout*/)
{
  version_int = get_version_from_string(COLVARS_VERSION);
  engine_name_ = "standalone";
  b_simulation_running = true;
  b_simulation_continuing = false;
  updated_masses_ = updated_charges_ = true;
  angstrom_value_ = 1.0;
  kcal_mol_value_ = 1.0;
  units = "real";
  boundaries_type = boundaries_non_periodic;
  reset_pbc_lattice();
  total_force_requested = false;
  rng.seed(12345);
  smp_rng.seed(1);
  rep_rng.seed(1);
  // default of the base class is "cvcs" whenever OpenMP is compiled in: the simulator decides
  smp_mode = smp_mode_t::none;
  set_natoms(natoms);
}


verif_proxy::~verif_proxy()
{
  for (auto &p : rep_fds) {
    if (p.second >= 0) ::close(p.second);
  }
}


void verif_proxy::set_natoms(int n)
{
  eng.resize(n);
}


void verif_proxy::set_cell(bool on, double lx, double ly, double lz)
{
  have_cell = on;
  if (on) {
    cell = cvm::rvector(lx, ly, lz);
    unit_cell_x.set(lx, 0.0, 0.0);
    unit_cell_y.set(0.0, ly, 0.0);
    unit_cell_z.set(0.0, 0.0, lz);
    boundaries_type = boundaries_pbc_ortho;
    update_pbc_lattice();
  } else {
    boundaries_type = boundaries_non_periodic;
    reset_pbc_lattice();
  }
}


int verif_proxy::setup()
{
  return colvarproxy::setup();
}


int verif_proxy::engine_init()
{
  int err = setup();
  err |= colvars->update_engine_parameters();
  err |= colvars->setup_input();
  err |= colvars->setup_output();
  return err;
}


void verif_proxy::begin_run()
{
  new_run_pending = true;
}


int verif_proxy::end_run()
{
  return post_run();
}


cvm::rvector verif_proxy::applied_force(int id) const
{
  cvm::rvector f(0.0, 0.0, 0.0);
  for (size_t i = 0; i < atoms_ids.size(); i++) {
    if (atoms_ids[i] == id && atoms_refcount[i] > 0) {
      f += atoms_new_colvar_forces[i];
    }
  }
  return f;
}


int verif_proxy::engine_step(bool advance, bool continuing)
{
  if (!first_step_done) {
    // NAMD: the very first step of the process runs the first-call sequence and does not advance
    first_step_done = true;
    new_run_pending = false;
    b_simulation_continuing = continuing;
  } else if (new_run_pending) {
    // first step of a new run statement: step repeated, counter not incremented
    new_run_pending = false;
    b_simulation_continuing = true;
    colvars->setup_output();
  } else if (advance) {
    colvarmodule::it++;
    b_simulation_continuing = false;
  } else {
    // explicit repetition requested by the scenario ("eval")
    b_simulation_continuing = continuing;
  }

  if (have_cell) {
    boundaries_type = boundaries_pbc_ortho;
    update_pbc_lattice();
  }

  energies.clear();
  for (size_t i = 0; i < atoms_ids.size(); i++) {
    atoms_new_colvar_forces[i].reset();
    int const id = atoms_ids[i];
    if (id >= 0 && id < int(eng.size())) {
      atoms_positions[i] = eng[id].x;
    }
    atoms_total_forces[i].reset();
  }

  if (total_force_requested && tf_mode != TF_OFF) {
    if (tf_mode == TF_SAME) {
      for (size_t i = 0; i < atoms_ids.size(); i++) {
        int const id = atoms_ids[i];
        if (id >= 0 && id < int(eng.size())) atoms_total_forces[i] = eng[id].fext;
      }
    } else if (cvm::step_relative() > 0) {
      for (size_t i = 0; i < atoms_ids.size(); i++) {
        int const id = atoms_ids[i];
        if (id >= 0 && id < int(eng.size())) {
          atoms_total_forces[i] = eng[id].fext_prev + eng[id].fcv_prev;
        }
      }
    }
  }

  alch_force = 0.0;

  int const rc = colvars->calc();

  // engine bookkeeping for the next step (previous-step convention)
  for (size_t k = 0; k < eng.size(); k++) {
    eng[k].fext_prev = eng[k].fext;
    eng[k].fcv_prev = applied_force(int(k));
  }
  return rc;
}


void verif_proxy::log(std::string const &message)
{
  std::lock_guard<std::mutex> g(io_mutex_);
  n_log++;
  if (keep_log) log_lines.push_back(message);
  if (echo) std::cerr << "colvars: " << message;
}


void verif_proxy::error(std::string const &message)
{
  std::lock_guard<std::mutex> g(io_mutex_);
  n_err++;
  add_error_msg(message);
  if (err_lines.size() < 200) err_lines.push_back(message);
  if (keep_log) log_lines.push_back(message);
  if (echo) std::cerr << "colvars: " << message;
}


int verif_proxy::set_unit_system(std::string const &units_in, bool check_only)
{
  if (check_only) {
    if ((units != "" && units_in != units) || (units == "" && units_in != "real")) {
      cvm::error("Specified unit system \"" + units_in + "\" is incompatible with previous setting \"" +
                 units + "\".\n");
      return COLVARS_ERROR;
    }
    return COLVARS_OK;
  }
  if (units_in == "real") {
    angstrom_value_ = 1.;
    kcal_mol_value_ = 1.;
  } else if (units_in == "metal") {
    angstrom_value_ = 1.;
    kcal_mol_value_ = 0.0433641017;
  } else if (units_in == "electron") {
    angstrom_value_ = 1.88972612;
    kcal_mol_value_ = 0.00159360144;
  } else if (units_in == "gromacs") {
    angstrom_value_ = 0.1;
    kcal_mol_value_ = 4.184;
  } else {
    cvm::error("Unknown unit system specified: \"" + units_in + "\".\n");
    return COLVARS_ERROR;
  }
  units = units_in;
  return COLVARS_OK;
}


int verif_proxy::check_atom_id(int atom_number)
{
  int const aid = atom_number - 1;
  if (aid < 0 || aid >= int(eng.size())) {
    cvm::error("Error: invalid atom number specified, " + cvm::to_str(atom_number) + "\n",
               COLVARS_INPUT_ERROR);
    return COLVARS_INPUT_ERROR;
  }
  return aid;
}


int verif_proxy::init_atom(int atom_number)
{
  int aid = atom_number - 1;
  for (size_t i = 0; i < atoms_ids.size(); i++) {
    if (atoms_ids[i] == aid) {
      atoms_refcount[i] += 1;
      return int(i);
    }
  }
  aid = check_atom_id(atom_number);
  if (aid < 0) return COLVARS_INPUT_ERROR;
  int const index = add_atom_slot(aid);
  atoms_masses[index] = eng[aid].mass;
  atoms_charges[index] = eng[aid].charge;
  atoms_positions[index] = eng[aid].x;
  updated_masses_ = updated_charges_ = true;
  return index;
}


int verif_proxy::check_atom_name_selections_available()
{
  for (auto const &a : eng) {
    if (a.name.size()) return COLVARS_OK;
  }
  return COLVARS_NOT_IMPLEMENTED;
}


int verif_proxy::check_atom_id(cvm::residue_id const &residue, std::string const &atom_name,
                               std::string const &segment_id)
{
  for (size_t k = 0; k < eng.size(); k++) {
    if (eng[k].name.size() && eng[k].resid == residue && eng[k].name == atom_name &&
        (segment_id.empty() || eng[k].segid == segment_id)) {
      return int(k);
    }
  }
  cvm::error("Error: could not find atom " + atom_name + " in residue " + cvm::to_str(residue) +
             (segment_id.size() ? " of segment " + segment_id : std::string("")) + "\n",
             COLVARS_INPUT_ERROR);
  return COLVARS_INPUT_ERROR;
}


int verif_proxy::init_atom(cvm::residue_id const &residue, std::string const &atom_name,
                           std::string const &segment_id)
{
  int const aid = check_atom_id(residue, atom_name, segment_id);
  if (aid < 0) return COLVARS_INPUT_ERROR;
  return init_atom(aid + 1);
}


void verif_proxy::request_total_force(bool yesno)
{
  if (yesno && tf_mode == TF_OFF) {
    cvm::error("Error: total forces are not available in this engine configuration.\n",
               COLVARS_NOT_IMPLEMENTED);
    return;
  }
  total_force_requested = yesno;
}


bool verif_proxy::total_forces_enabled() const
{
  return total_force_requested;
}


bool verif_proxy::total_forces_same_step() const
{
  return tf_mode == TF_SAME;
}


void verif_proxy::add_energy(cvm::real energy)
{
  energies.push_back(energy);
}


cvm::real verif_proxy::rand_gaussian()
{
  double g = 0.0;
  if (!gauss_zero) {
    // Box-Muller on a fixed 64-bit generator: identical on every platform and build flavour
    double u1, u2;
    do {
      u1 = (double)(rng() >> 11) * (1.0 / 9007199254740992.0);
    } while (u1 <= 0.0);
    u2 = (double)(rng() >> 11) * (1.0 / 9007199254740992.0);
    g = std::sqrt(-2.0 * std::log(u1)) * std::cos(2.0 * M_PI * u2);
  }
  if (gauss_log.size() < 1000000) gauss_log.push_back(g);
  return g;
}


// ---- alchemical back end ----------------------------------------------------------------------

int verif_proxy::get_alch_lambda(cvm::real *lambda)
{
  if (!alch_on) return colvarproxy::get_alch_lambda(lambda);
  *lambda = alch_lambda;
  return COLVARS_OK;
}

int verif_proxy::send_alch_lambda()
{
  if (!alch_on) return colvarproxy::send_alch_lambda();
  alch_lambda = cached_alch_lambda;
  alch_sent.push_back(alch_lambda);
  return COLVARS_OK;
}

int verif_proxy::get_dE_dlambda(cvm::real *dE_dlambda)
{
  if (!alch_on) return colvarproxy::get_dE_dlambda(dE_dlambda);
  *dE_dlambda = 2.0 * alch_a * alch_lambda + alch_b;
  return COLVARS_OK;
}

int verif_proxy::apply_force_dE_dlambda(cvm::real *force)
{
  if (!alch_on) return colvarproxy::apply_force_dE_dlambda(force);
  alch_force += *force;
  return COLVARS_OK;
}

int verif_proxy::get_d2E_dlambda2(cvm::real *d2E_dlambda2)
{
  if (!alch_on) return colvarproxy::get_d2E_dlambda2(d2E_dlambda2);
  *d2E_dlambda2 = 2.0 * alch_a;
  return COLVARS_OK;
}


// ---- SMP --------------------------------------------------------------------------------------

void verif_proxy::set_smp(smp_kind_t k, int nthreads, uint64_t seed)
{
  smp_kind = k;
  smp_nthreads = nthreads < 1 ? 1 : nthreads;
  smp_rng.seed(seed);
  smp_mode = (k == SMP_NONE) ? smp_mode_t::none : smp_mode_t::cvcs;
}

colvarproxy::smp_mode_t verif_proxy::get_smp_mode() const
{
  if (smp_kind == SMP_OMP) return colvarproxy_smp::get_smp_mode();
  return smp_mode;
}

int verif_proxy::set_smp_mode(smp_mode_t mode)
{
  if (smp_kind == SMP_OMP) return colvarproxy_smp::set_smp_mode(mode);
  if (smp_kind == SMP_NONE && mode != smp_mode_t::none) {
    // the engine decides: configuration cannot turn threads on where the scenario has none
    smp_mode = smp_mode_t::none;
    return COLVARS_OK;
  }
  smp_mode = mode;
  return COLVARS_OK;
}

int verif_proxy::smp_thread_id()
{
  if (smp_kind == SMP_OMP) return colvarproxy_smp::smp_thread_id();
  if (smp_kind == SMP_NONE) return 0;
  return tl_thread_id_;
}

int verif_proxy::smp_num_threads()
{
  if (smp_kind == SMP_OMP) return colvarproxy_smp::smp_num_threads();
  if (smp_kind == SMP_NONE) return 1;
  return smp_nthreads;
}

int verif_proxy::smp_lock()
{
  if (smp_kind == SMP_OMP) return colvarproxy_smp::smp_lock();
  if (smp_kind == SMP_THREADS) smp_mutex_.lock();
  return COLVARS_OK;
}

int verif_proxy::smp_trylock()
{
  if (smp_kind == SMP_OMP) return colvarproxy_smp::smp_trylock();
  if (smp_kind == SMP_THREADS) return smp_mutex_.try_lock() ? COLVARS_OK : COLVARS_ERROR;
  return COLVARS_OK;
}

int verif_proxy::smp_unlock()
{
  if (smp_kind == SMP_OMP) return colvarproxy_smp::smp_unlock();
  if (smp_kind == SMP_THREADS) smp_mutex_.unlock();
  return COLVARS_OK;
}


// run items [0,n) under the scenario's schedule; returns OR of return codes
int verif_proxy::run_schedule_(int n, std::function<int(int)> const &work, std::string *sched_out)
{
  std::vector<int> order(n);
  for (int i = 0; i < n; i++) order[i] = i;
  std::shuffle(order.begin(), order.end(), smp_rng);
  std::vector<int> tid(n);
  for (int i = 0; i < n; i++) tid[i] = int(smp_rng() % uint64_t(smp_nthreads));
  if (sched_out) {
    std::ostringstream os;
    for (int i = 0; i < n; i++) os << (i ? "," : "") << order[i] << "@" << tid[order[i]];
    *sched_out = os.str();
  }
  int err = 0;
  if (smp_kind == SMP_PERM) {
    for (int k = 0; k < n; k++) {
      tl_thread_id_ = tid[order[k]];
      err |= work(order[k]);
    }
    tl_thread_id_ = 0;
    return err;
  }
  // real threads: thread t executes, in the permuted order, the items assigned to it
  std::vector<std::vector<int>> per(smp_nthreads);
  for (int k = 0; k < n; k++) per[tid[order[k]]].push_back(order[k]);
  std::vector<uint64_t> yseed(smp_nthreads);
  for (auto &s : yseed) s = smp_rng();
  std::vector<int> errs(smp_nthreads, 0);
  auto body = [&](int t) {
    tl_thread_id_ = t;
    std::mt19937_64 yr(yseed[t]);
    for (int it : per[t]) {
      if (yr() & 1) std::this_thread::yield();
      errs[t] |= work(it);
    }
  };
  std::vector<std::thread> th;
  for (int t = 1; t < smp_nthreads; t++) th.emplace_back(body, t);
  body(0);
  for (auto &t : th) t.join();
  tl_thread_id_ = 0;
  for (int e : errs) err |= e;
  return err;
}


int verif_proxy::smp_loop(int n_items, std::function<int(int)> const &worker)
{
  if (smp_kind == SMP_OMP) return colvarproxy_smp::smp_loop(n_items, worker);
  if (smp_kind == SMP_NONE) return COLVARS_NOT_IMPLEMENTED;
  cvm::increase_depth();
  std::string s;
  int const err = run_schedule_(n_items, worker, keep_schedule ? &s : nullptr);
  if (keep_schedule) schedule_log.push_back("cvc:" + s);
  cvm::decrease_depth();
  return err;
}

int verif_proxy::smp_biases_loop()
{
  if (smp_kind == SMP_OMP) return colvarproxy_smp::smp_biases_loop();
  if (smp_kind == SMP_NONE) return COLVARS_NOT_IMPLEMENTED;
  colvarmodule *cv = cvm::main();
  int const n = int(cv->biases_active()->size());
  std::string s;
  run_schedule_(n, [cv](int i) {
    (*(cv->biases_active()))[i]->update();
    return 0;
  }, keep_schedule ? &s : nullptr);
  if (keep_schedule) schedule_log.push_back("bias:" + s);
  return cvm::get_error();
}

int verif_proxy::smp_biases_script_loop()
{
  if (smp_kind == SMP_OMP) return colvarproxy_smp::smp_biases_script_loop();
  if (smp_kind == SMP_NONE) return COLVARS_NOT_IMPLEMENTED;
  colvarmodule *cv = cvm::main();
  int const n = int(cv->biases_active()->size());
  std::string s;
  // item n is the scripted-force task
  run_schedule_(n + 1, [cv, n](int i) {
    if (i == n) {
      cv->calc_scripted_forces();
    } else {
      (*(cv->biases_active()))[i]->update();
    }
    return 0;
  }, keep_schedule ? &s : nullptr);
  if (keep_schedule) schedule_log.push_back("bias+script:" + s);
  return cvm::get_error();
}

int verif_proxy::run_force_callback()
{
  cb_calls++;
  if (cb_colvar.empty()) return COLVARS_OK;
  colvar *cv = cvm::colvar_by_name(cb_colvar);
  if (!cv) return COLVARS_ERROR;
  colvarvalue f(cv->value());
  f.reset();
  for (size_t i = 0; i < f.size(); i++) f[int(i)] = cb_force * double(i + 1);
  {
    // as a scripted-force procedure does: cv colvar <name> addforce <value>
    std::string const fs = f.to_simple_string();
    unsigned char *argv[5] = {(unsigned char *) "cv", (unsigned char *) "colvar", (unsigned char *) cb_colvar.c_str(),
                              (unsigned char *) "addforce", (unsigned char *) fs.c_str()};
    if (run_colvarscript_command(5, argv) != COLVARS_OK) return COLVARS_ERROR;
  }
  if (!cb_energy.empty()) {
    // as a scripted-force procedure would do: through the script interface
    unsigned char *argv[3] = {(unsigned char *) "cv", (unsigned char *) "addenergy", (unsigned char *) cb_energy.c_str()};
    if (run_colvarscript_command(3, argv) != COLVARS_OK) return COLVARS_ERROR;
  }
  return COLVARS_OK;
}


// ---- replicas -----------------------------------------------------------------------------------

void verif_proxy::set_replicas(std::string const &dir, int index, int num, uint64_t seed,
                               int max_delay_us)
{
  rep_dir = dir;
  rep_index = index;
  rep_num = num;
  rep_rng.seed(seed);
  rep_max_delay_us = max_delay_us;
  // Open every channel of this replica now and keep it open for the life of the process: the
  // content of a FIFO is discarded when its last descriptor is closed, so a message written by a
  // peer that then exits must not find the channel unopened on this side (walker restarts)
  for (int p = 0; p < rep_num; p++) {
    if (p == rep_index) continue;
    rep_fd(rep_index, p);
    rep_fd(p, rep_index);
    rep_fd(rep_index, p, "b");
    rep_fd(p, rep_index, "b");
  }
}

int verif_proxy::check_replicas_enabled()
{
  return rep_num > 1 ? COLVARS_OK : COLVARS_NOT_IMPLEMENTED;
}

int verif_proxy::replica_index() { return rep_index; }
int verif_proxy::num_replicas() { return rep_num; }

int verif_proxy::rep_fd(int from, int to, char const *kind)
{
  char name[64];
  snprintf(name, sizeof(name), "/%s_%d_%d", kind, from, to);
  std::string const path = rep_dir + name;
  auto it = rep_fds.find(path);
  if (it != rep_fds.end()) return it->second;
  ::mkfifo(path.c_str(), 0600); // EEXIST is fine
  int const fd = ::open(path.c_str(), O_RDWR);
  if (fd >= 0) {
#ifdef F_SETPIPE_SZ
    fcntl(fd, F_SETPIPE_SZ, 1 << 20);
#endif
  }
  rep_fds[path] = fd;
  return fd;
}

static int write_all(int fd, char const *p, size_t n)
{
  while (n) {
    ssize_t const w = ::write(fd, p, n);
    if (w < 0) {
      if (errno == EINTR) continue;
      return -1;
    }
    p += w;
    n -= size_t(w);
  }
  return 0;
}

static int read_all(int fd, char *p, size_t n)
{
  while (n) {
    ssize_t const r = ::read(fd, p, n);
    if (r < 0) {
      if (errno == EINTR) continue;
      return -1;
    }
    if (r == 0) return -1;
    p += r;
    n -= size_t(r);
  }
  return 0;
}

int verif_proxy::replica_comm_send(char *msg_data, int msg_len, int dest_rep)
{
  if (rep_num <= 1) return 0;
  if (rep_max_delay_us > 0) {
    ::usleep(useconds_t(rep_rng() % uint64_t(rep_max_delay_us)));
  }
  int const fd = rep_fd(rep_index, dest_rep);
  if (fd < 0) return 0;
  int32_t len = msg_len;
  if (write_all(fd, reinterpret_cast<char *>(&len), sizeof(len))) return 0;
  if (write_all(fd, msg_data, size_t(msg_len))) return 0;
  rep_sent++;
  return msg_len;
}

int verif_proxy::replica_comm_recv(char *msg_data, int buf_len, int src_rep)
{
  if (rep_num <= 1) return 0;
  int const fd = rep_fd(src_rep, rep_index);
  if (fd < 0) return 0;
  int32_t len = 0;
  if (read_all(fd, reinterpret_cast<char *>(&len), sizeof(len))) return 0;
  if (len < 0) return 0;
  if (len > buf_len) {
    // message larger than the buffer: drain it, report what MPI would (truncation error)
    std::vector<char> tmp(len);
    read_all(fd, tmp.data(), size_t(len));
    memcpy(msg_data, tmp.data(), size_t(buf_len));
    return 0;
  }
  if (read_all(fd, msg_data, size_t(len))) return 0;
  rep_recv++;
  return len;
}

void verif_proxy::replica_comm_barrier()
{
  if (rep_num <= 1) return;
  char tok = 'b';
  // separate channel so that barrier tokens never interleave with data messages
  auto bfd = [this](int from, int to) { return rep_fd(from, to, "b"); };
  if (rep_index == 0) {
    for (int p = 1; p < rep_num; p++) read_all(bfd(p, 0), &tok, 1);
    for (int p = 1; p < rep_num; p++) write_all(bfd(0, p), &tok, 1);
  } else {
    write_all(bfd(rep_index, 0), &tok, 1);
    read_all(bfd(0, rep_index), &tok, 1);
  }
}
