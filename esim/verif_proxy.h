// -*- c++ -*-
// Engine simulator for Colvars: a colvarproxy subclass that plays a complete (and, on request,
// hostile) MD engine.  Lives entirely in /verif; nothing in /repo is edited for it.
//
// Contract mirrored from colvarproxy_namd::calculate() and colvarproxy_lammps::compute():
//   per step: zero atoms_new_colvar_forces; load positions (and total forces); advance cvm::it
//   unless this is the first step of a new run segment (then b_simulation_continuing = true);
//   colvars->calc().
#ifndef VERIF_PROXY_H
#define VERIF_PROXY_H

#include <cstdint>
#include <functional>
#include <map>
#include <mutex>
#include <random>
#include <string>
#include <vector>

#include "colvarmodule.h"
#include "colvarproxy.h"

class verif_proxy : public colvarproxy {
public:
  struct eng_atom {
    double mass = 1.0, charge = 0.0;
    cvm::rvector x, fext, fext_prev, fcv_prev;
    int resid = 0;
    std::string name, segid;
  };

  enum tf_mode_t { TF_OFF, TF_SAME, TF_PREV };
  enum smp_kind_t { SMP_NONE, SMP_OMP, SMP_PERM, SMP_THREADS };

  explicit verif_proxy(int natoms = 0, bool quiet_stdout = true);
  ~verif_proxy() override;

  // ---- engine side --------------------------------------------------------------------------
  std::vector<eng_atom> eng;
  tf_mode_t tf_mode = TF_OFF;
  bool first_step_done = false;   // engine has run at least one step in this process
  bool new_run_pending = true;    // the next step is the first of a "run" statement
  bool have_cell = false;
  cvm::rvector cell;

  void set_natoms(int n);
  void set_cell(bool on, double lx, double ly, double lz);
  /// First-call sequence of a real engine
  int engine_init();
  /// One engine step.  advance=false repeats the current step number (run boundary / "eval")
  int engine_step(bool advance, bool continuing);
  /// Marks the beginning of a new run statement (NAMD: output prefixes re-read, setup_output())
  void begin_run();
  int end_run();

  // ---- observations -------------------------------------------------------------------------
  std::vector<double> energies;          // add_energy() arguments of the current step, in order
  std::vector<std::string> log_lines;    // kept only if keep_log
  std::vector<std::string> err_lines;    // always kept (bounded)
  bool keep_log = false;
  bool echo = false;
  size_t n_log = 0, n_err = 0;
  /// Applied force on engine atom id (0-based); zero if the atom is not requested
  cvm::rvector applied_force(int id) const;

  // ---- random numbers -----------------------------------------------------------------------
  std::mt19937_64 rng;
  std::vector<double> gauss_log;
  bool gauss_zero = false;
  cvm::real rand_gaussian() override;

  // ---- overrides ----------------------------------------------------------------------------
  int setup() override;
  void log(std::string const &message) override;
  void error(std::string const &message) override;
  int set_unit_system(std::string const &units_in, bool check_only) override;
  int init_atom(int atom_number) override;
  int check_atom_id(int atom_number) override;
  int check_atom_name_selections_available() override;
  int init_atom(cvm::residue_id const &residue, std::string const &atom_name,
                std::string const &segment_id) override;
  int check_atom_id(cvm::residue_id const &residue, std::string const &atom_name,
                    std::string const &segment_id) override;
  void request_total_force(bool yesno) override;
  bool total_forces_enabled() const override;
  bool total_forces_same_step() const override;
  void add_energy(cvm::real energy) override;

  // alchemical back end: E(lambda) = a*lambda^2 + b*lambda (+ c)
  bool alch_on = false;
  double alch_a = 0.0, alch_b = 0.0, alch_lambda = 0.0;
  double alch_force = 0.0;   // force applied on dE/dlambda by Colvars
  std::vector<double> alch_sent;
  int get_alch_lambda(cvm::real *lambda) override;
  int send_alch_lambda() override;
  int get_dE_dlambda(cvm::real *dE_dlambda) override;
  int apply_force_dE_dlambda(cvm::real *force) override;
  int get_d2E_dlambda2(cvm::real *d2E_dlambda2) override;

  // accelerated MD
  bool amd_on = false;
  double amd_factor = 1.0;
  cvm::real get_accelMD_factor() const override { return amd_factor; }
  bool accelMD_enabled() const override { return amd_on; }

  // ---- SMP ---------------------------------------------------------------------------------
  smp_kind_t smp_kind = SMP_NONE;
  int smp_nthreads = 1;
  std::mt19937_64 smp_rng;
  std::vector<std::string> schedule_log;   // one string per parallel region: order / thread map
  bool keep_schedule = false;
  smp_mode_t get_smp_mode() const override;
  int set_smp_mode(smp_mode_t mode) override;
  int smp_loop(int n_items, std::function<int(int)> const &worker) override;
  int smp_biases_loop() override;
  int smp_biases_script_loop() override;
  int smp_thread_id() override;
  int smp_num_threads() override;
  int smp_lock() override;
  int smp_trylock() override;
  int smp_unlock() override;
  void set_smp(smp_kind_t k, int nthreads, uint64_t seed);

  // native "scripted force" task
  std::string cb_colvar;
  double cb_force = 0.0;
  std::string cb_energy;     // if not empty: the callback also issues the script command "cv addenergy <cb_energy>"
  int cb_calls = 0;
  int run_force_callback() override;

  // ---- replicas (FIFOs between processes) -----------------------------------------------------
  int rep_index = 0, rep_num = 1;
  std::string rep_dir;
  std::mt19937_64 rep_rng;
  int rep_max_delay_us = 0;
  std::map<std::string, int> rep_fds;
  size_t rep_sent = 0, rep_recv = 0;
  void set_replicas(std::string const &dir, int index, int num, uint64_t seed, int max_delay_us);
  int check_replicas_enabled() override;
  int replica_index() override;
  int num_replicas() override;
  void replica_comm_barrier() override;
  int replica_comm_recv(char *msg_data, int buf_len, int src_rep) override;
  int replica_comm_send(char *msg_data, int msg_len, int dest_rep) override;

  // allow tools to poke engine-facing protected members
  void set_continuing(bool c) { b_simulation_continuing = c; }
  void set_running(bool r) { b_simulation_running = r; }

private:
  int rep_fd(int from, int to, char const *kind = "f");
  int run_schedule_(int n, std::function<int(int)> const &work, std::string *sched_out);
  std::mutex smp_mutex_;
  std::mutex io_mutex_;
  bool in_parallel_ = false;
  static thread_local int tl_thread_id_;
};

/// JSON helpers shared by the tools
namespace vjson {
std::string esc(std::string const &s);
std::string num(double x);
std::string vec(cvm::rvector const &v);
std::string val(colvarvalue const &v);
}

#endif
