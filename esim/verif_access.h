// -*- c++ -*-
// Read-only accessor to Colvars internals, enabled by the guarded friend declarations
// (`friend struct colvars_verif_access;` under #ifdef COLVARS_VERIF).  Nothing here writes.
#ifndef VERIF_ACCESS_H
#define VERIF_ACCESS_H

#include <map>
#include <set>
#include <string>
#include <vector>

#include "colvarmodule.h"
#include "colvar.h"
#include "colvarbias.h"
#include "colvardeps.h"
#include "colvargrid.h"
#include "colvarbias_abf.h"

#include "verif_proxy.h"

struct colvars_verif_access {

  static std::vector<colvarvalue> const &bias_forces(colvarbias *b) { return b->colvar_forces; }

  static std::string ext_json(colvar *c)
  {
    std::string s = "{\"x\":" + vjson::val(c->x_ext) + ",\"v\":" + vjson::val(c->v_ext) +
                    ",\"m\":" + vjson::num(c->ext_mass) + ",\"k\":" + vjson::num(c->ext_force_k) +
                    ",\"gamma\":" + vjson::num(c->ext_gamma) + ",\"sigma\":" + vjson::num(c->ext_sigma) +
                    ",\"Ek\":" + vjson::num(c->kinetic_energy) + ",\"Ep\":" + vjson::num(c->potential_energy) + "}";
    return s;
  }

  static std::vector<colvardeps *> const &children(colvardeps *d) { return d->children; }
  static std::vector<colvardeps *> const &parents(colvardeps *d) { return d->parents; }
  static std::vector<colvardeps::feature_state> const &states(colvardeps *d) { return d->feature_states; }

  // integrate_potential
  static std::vector<cvm::real> const &divergence(integrate_potential *p) { return p->divergence; }

  // ABF grids
  static colvar_grid_gradient *abf_gradients(colvarbias_abf *b) { return b->gradients.get(); }
  static colvar_grid_count *abf_samples(colvarbias_abf *b) { return b->samples.get(); }
  static integrate_potential *abf_pmf(colvarbias_abf *b) { return b->pmf.get(); }

  /// Dependency-graph invariant (C13).  Returns a JSON object:
  ///   {"objects":N,"features_enabled":M,"viol":[...strings...],"refdiff":[...strings...]}
  static std::string deps_check_json(colvarmodule *cv)
  {
    std::vector<colvardeps *> roots;
    for (colvarbias *b : cv->biases) roots.push_back(static_cast<colvardeps *>(b));
    for (colvar *c : *(cv->variables())) roots.push_back(static_cast<colvardeps *>(c));
    std::set<colvardeps *> seen;
    std::vector<colvardeps *> order;
    std::vector<colvardeps *> stack(roots.rbegin(), roots.rend());
    while (!stack.empty()) {
      colvardeps *d = stack.back();
      stack.pop_back();
      if (!seen.insert(d).second) continue;
      order.push_back(d);
      for (colvardeps *c : d->children) stack.push_back(c);
    }
    std::vector<std::string> viol, refdiff;
    size_t n_enabled = 0;
    for (colvardeps *d : order) {
      auto const &feats = d->features();
      auto const &st = d->feature_states;
      // structure
      for (colvardeps *c : d->children) {
        bool found = false;
        for (colvardeps *p : c->parents) found = found || (p == d);
        if (!found) viol.push_back("asym-child:" + d->description + "->" + c->description);
      }
      for (colvardeps *p : d->parents) {
        if (!seen.count(p)) {
          viol.push_back("parent-unreachable:" + d->description);
          continue;
        }
        bool found = false;
        for (colvardeps *c : p->children) found = found || (c == d);
        if (!found) viol.push_back("asym-parent:" + d->description + "<-" + p->description);
      }
      for (size_t f = 0; f < st.size() && f < feats.size(); f++) {
        if (!st[f].enabled) {
          continue;
        }
        n_enabled++;
        colvardeps::feature *ft = feats[f];
        for (int g : ft->requires_self) {
          if (!st[g].enabled) viol.push_back("self:" + d->description + ":" + ft->description + " needs " + feats[g]->description);
        }
        for (int g : ft->requires_exclude) {
          if (st[g].enabled) viol.push_back("excl:" + d->description + ":" + ft->description + " with " + feats[g]->description);
        }
        for (auto const &alt : ft->requires_alt) {
          bool any = false;
          for (int g : alt) any = any || st[g].enabled;
          if (!any) viol.push_back("alt:" + d->description + ":" + ft->description);
        }
        if (st[0].enabled) {
          for (int g : ft->requires_children) {
            for (colvardeps *c : d->children) {
              if (!c->feature_states[g].enabled) {
                viol.push_back("child:" + d->description + ":" + ft->description + " needs " + c->description + ":" +
                               c->features()[g]->description);
              }
            }
          }
        }
      }
      // reference counts recomputed from scratch
      for (size_t g = 0; g < st.size() && g < feats.size(); g++) {
        int expect = 0;
        for (size_t f = 0; f < st.size() && f < feats.size(); f++) {
          if (!st[f].enabled) continue;
          for (int r : feats[f]->requires_self) {
            if (size_t(r) == g) expect++;
          }
          for (int r : st[f].alternate_refs) {
            if (size_t(r) == g) expect++;
          }
        }
        for (colvardeps *p : d->parents) {
          if (!seen.count(p)) continue;
          if (!p->feature_states[0].enabled) continue;
          auto const &pf = p->features();
          for (size_t f = 0; f < p->feature_states.size() && f < pf.size(); f++) {
            if (!p->feature_states[f].enabled) continue;
            for (int r : pf[f]->requires_children) {
              if (size_t(r) == g) expect++;
            }
          }
        }
        if (st[g].enabled) {
          if (st[g].ref_count != expect) {
            refdiff.push_back(d->description + ":" + feats[g]->description + " ref_count=" +
                              std::to_string(st[g].ref_count) + " expect=" + std::to_string(expect));
          }
        } else if (expect > 0 && st[0].enabled) {
          // something enabled needs g, and g is off
          refdiff.push_back(d->description + ":" + feats[g]->description + " OFF but needed by " +
                            std::to_string(expect));
        }
      }
    }
    std::string s = "{\"objects\":" + std::to_string(order.size()) + ",\"features_enabled\":" +
                    std::to_string(n_enabled) + ",\"viol\":[";
    for (size_t i = 0; i < viol.size(); i++) s += (i ? "," : "") + vjson::esc(viol[i]);
    s += "],\"refdiff\":[";
    for (size_t i = 0; i < refdiff.size(); i++) s += (i ? "," : "") + vjson::esc(refdiff[i]);
    s += "]}";
    return s;
  }
};

#endif
