// esim: scenario interpreter around verif_proxy.
//
//   esim <scenario file> [<event log file>]
//
// The scenario is a line-oriented script (see DESIGN.md 1.2); the event log is JSON lines, all
// doubles printed with 17 significant digits (round-trip exact).  One event per command.
#include <cmath>
#include <cstdio>
#include <cstdlib>
#include <cstring>
#include <fstream>
#include <iostream>
#include <sstream>
#include <unistd.h>
#include <string>
#include <vector>

#include "colvarmodule.h"
#include "colvar.h"
#include "colvarbias.h"
#include "colvarscript.h"
#include "colvarproxy.h"

#include "verif_proxy.h"
#include "verif_access.h"

using vjson::esc;
using vjson::num;
using vjson::val;
using vjson::vec;

namespace {

FILE *out = stdout;
verif_proxy *px = nullptr;
bool emit_cv = true, emit_bias = true, emit_atoms = true, emit_steps = true;
long emit_every = 1;

void emit(std::string const &s)
{
  fputs(s.c_str(), out);
  fputc('\n', out);
}

std::vector<std::string> split(std::string const &l)
{
  std::vector<std::string> t;
  std::istringstream is(l);
  std::string w;
  while (is >> w) t.push_back(w);
  return t;
}

double todbl(std::string const &s)
{
  char *e = nullptr;
  double const v = strtod(s.c_str(), &e);
  if (e == s.c_str() || *e) {
    fprintf(stderr, "esim: bad number '%s'\n", s.c_str());
    exit(2);
  }
  return v;
}

// parse a JSON array of strings (only what the monitors generate)
std::vector<std::string> parse_json_strs(std::string const &s)
{
  std::vector<std::string> r;
  size_t i = 0;
  while (i < s.size() && s[i] != '[') i++;
  i++;
  while (i < s.size()) {
    while (i < s.size() && (s[i] == ' ' || s[i] == ',')) i++;
    if (i >= s.size() || s[i] == ']') break;
    if (s[i] != '"') {
      fprintf(stderr, "esim: bad json string array\n");
      exit(2);
    }
    i++;
    std::string w;
    while (i < s.size() && s[i] != '"') {
      if (s[i] == '\\' && i + 1 < s.size()) {
        i++;
        switch (s[i]) {
        case 'n': w.push_back('\n'); break;
        case 't': w.push_back('\t'); break;
        case 'r': w.push_back('\r'); break;
        case 'u': {
          unsigned v = 0;
          sscanf(s.substr(i + 1, 4).c_str(), "%x", &v);
          w.push_back(char(v & 0xff));
          i += 4;
          break;
        }
        default: w.push_back(s[i]);
        }
      } else {
        w.push_back(s[i]);
      }
      i++;
    }
    i++;
    r.push_back(w);
  }
  return r;
}

void ensure_module()
{
  if (!px->colvars) {
    px->colvars = new colvarmodule(px);
    px->colvars->cv_traj_freq = 0;
    px->colvars->restart_out_freq = 0;
  }
}

std::string errinfo()
{
  std::string s = "\"err\":" + std::to_string(cvm::get_error());
  return s;
}

std::string errmsgs_and_clear()
{
  std::string s = "[";
  for (size_t i = 0; i < px->err_lines.size(); i++) {
    if (i) s += ",";
    s += esc(px->err_lines[i]);
  }
  s += "]";
  px->err_lines.clear();
  return s;
}

std::string loglines_and_clear()
{
  std::string s = "[";
  for (size_t i = 0; i < px->log_lines.size(); i++) {
    if (i) s += ",";
    s += esc(px->log_lines[i]);
  }
  s += "]";
  px->log_lines.clear();
  return s;
}

double energy_sum()
{
  double e = 0.0;
  for (double x : px->energies) e += x;
  return e;
}

std::string step_event(char const *kind, int rc)
{
  std::string s = "{\"ev\":\"";
  s += kind;
  s += "\",\"it\":" + std::to_string((long long)cvm::step_absolute());
  s += ",\"rel\":" + std::to_string((long long)cvm::step_relative());
  s += ",\"cont\":" + std::string(px->simulation_continuing() ? "true" : "false");
  s += ",\"rc\":" + std::to_string(rc) + "," + errinfo();
  s += ",\"en\":[";
  for (size_t i = 0; i < px->energies.size(); i++) {
    if (i) s += ",";
    s += num(px->energies[i]);
  }
  s += "]";
  colvarmodule *cv = px->colvars;
  if (emit_cv) {
    s += ",\"cv\":{";
    bool first = true;
    for (colvar *c : *(cv->variables())) {
      if (!first) s += ",";
      first = false;
      s += esc(c->name) + ":{\"x\":" + val(c->value());
      s += ",\"xa\":" + val(c->actual_value());
      s += ",\"on\":" + std::string(c->is_enabled() ? "1" : "0");
      // an extended-Lagrangian variable carries the velocity and the force of its extended coordinate whether or not
      // they are requested as outputs
      bool const xl = c->is_enabled(colvardeps::f_cv_extended_Lagrangian);
      if (xl || c->is_enabled(colvardeps::f_cv_fdiff_velocity)) s += ",\"v\":" + val(c->velocity());
      if (xl || c->is_enabled(colvardeps::f_cv_total_force)) s += ",\"ft\":" + val(c->total_force());
      s += ",\"fa\":" + val(c->applied_force());
      if (c->is_enabled(colvardeps::f_cv_extended_Lagrangian)) {
        s += ",\"ext\":" + colvars_verif_access::ext_json(c);
      }
      s += "}";
    }
    s += "}";
  }
  if (emit_bias) {
    s += ",\"bias\":{";
    bool first = true;
    for (colvarbias *b : cv->biases) {
      if (!first) s += ",";
      first = false;
      s += esc(b->name) + ":{\"e\":" + num(b->get_energy());
      s += ",\"on\":" + std::string(b->is_enabled() ? "1" : "0");
      s += ",\"f\":[";
      auto const &bf = colvars_verif_access::bias_forces(b);
      for (size_t i = 0; i < bf.size(); i++) {
        if (i) s += ",";
        s += val(bf[i]);
      }
      s += "]}";
    }
    s += "}";
  }
  if (emit_atoms) {
    s += ",\"af\":[";
    for (size_t k = 0; k < px->eng.size(); k++) {
      if (k) s += ",";
      s += vec(px->applied_force(int(k)));
    }
    s += "]";
  }
  s += ",\"nact\":" + std::to_string(px->get_num_active_atoms());
  if (px->alch_on) {
    s += ",\"alch\":{\"lambda\":" + num(px->alch_lambda) + ",\"f\":" + num(px->alch_force) + "}";
  }
  if (px->keep_schedule) {
    s += ",\"sched\":[";
    for (size_t i = 0; i < px->schedule_log.size(); i++) {
      if (i) s += ",";
      s += esc(px->schedule_log[i]);
    }
    s += "]";
    px->schedule_log.clear();
  }
  if (px->err_lines.size()) s += ",\"errs\":" + errmsgs_and_clear();
  if (px->keep_log) s += ",\"log\":" + loglines_and_clear();
  s += "}";
  return s;
}

void read_n(std::vector<std::string> const &t, size_t from, std::vector<double> &v)
{
  v.clear();
  for (size_t i = from; i < t.size(); i++) v.push_back(todbl(t[i]));
}

std::string hexenc(std::vector<unsigned char> const &b)
{
  static char const *d = "0123456789abcdef";
  std::string s;
  s.reserve(b.size() * 2);
  for (unsigned char c : b) {
    s.push_back(d[c >> 4]);
    s.push_back(d[c & 15]);
  }
  return s;
}

std::vector<unsigned char> hexdec(std::string const &s)
{
  std::vector<unsigned char> b;
  auto hv = [](char c) { return c <= '9' ? c - '0' : (c | 32) - 'a' + 10; };
  for (size_t i = 0; i + 1 < s.size(); i += 2) b.push_back((unsigned char)(hv(s[i]) * 16 + hv(s[i + 1])));
  return b;
}

int run(std::istream &in)
{
  std::string line;
  long lineno = 0;
  long nsteps_done = 0;
  while (std::getline(in, line)) {
    lineno++;
    if (line.empty() || line[0] == '#') continue;
    std::vector<std::string> t = split(line);
    if (t.empty()) continue;
    std::string const &c = t[0];

    auto heredoc = [&](std::string const &tag) {
      std::string body, l;
      while (std::getline(in, l)) {
        lineno++;
        if (l == tag) break;
        body += l;
        body += "\n";
      }
      return body;
    };

    if (c == "natoms") {
      px->set_natoms(atoi(t[1].c_str()));
    } else if (c == "masses") {
      for (size_t i = 1; i < t.size() && i - 1 < px->eng.size(); i++) px->eng[i - 1].mass = todbl(t[i]);
    } else if (c == "charges") {
      for (size_t i = 1; i < t.size() && i - 1 < px->eng.size(); i++) px->eng[i - 1].charge = todbl(t[i]);
    } else if (c == "atomname") {
      // atomname <number 1-based> <resid> <name> <segid>
      int const k = atoi(t[1].c_str()) - 1;
      px->eng.at(k).resid = atoi(t[2].c_str());
      px->eng.at(k).name = t[3];
      px->eng.at(k).segid = t.size() > 4 ? t[4] : "";
    } else if (c == "env") {
      setenv(t[1].c_str(), t.size() > 2 ? t[2].c_str() : "", 1);
    } else if (c == "units") {
      px->set_unit_system(t[1], false);
    } else if (c == "dt") {
      px->set_integration_timestep(todbl(t[1]));
    } else if (c == "temp") {
      px->set_target_temperature(todbl(t[1]));
    } else if (c == "cell") {
      if (t[1] == "off") px->set_cell(false, 0, 0, 0);
      else px->set_cell(true, todbl(t[1]), todbl(t[2]), todbl(t[3]));
    } else if (c == "tfmode") {
      px->tf_mode = t[1] == "same" ? verif_proxy::TF_SAME : t[1] == "prev" ? verif_proxy::TF_PREV : verif_proxy::TF_OFF;
    } else if (c == "smp") {
      if (t[1] == "none") px->set_smp(verif_proxy::SMP_NONE, 1, 0);
      else if (t[1] == "omp") px->set_smp(verif_proxy::SMP_OMP, 1, 0);
      else if (t[1] == "perm") px->set_smp(verif_proxy::SMP_PERM, atoi(t[2].c_str()), strtoull(t[3].c_str(), 0, 10));
      else if (t[1] == "threads") px->set_smp(verif_proxy::SMP_THREADS, atoi(t[2].c_str()), strtoull(t[3].c_str(), 0, 10));
    } else if (c == "keepsched") {
      px->keep_schedule = (t[1] == "on");
    } else if (c == "forcecb") {
      px->cb_colvar = t[1] == "off" ? "" : t[1];
      px->cb_force = t.size() > 2 ? todbl(t[2]) : 0.0;
      px->cb_energy = t.size() > 3 ? t[3] : "";
    } else if (c == "rngseed") {
      px->rng.seed(strtoull(t[1].c_str(), 0, 10));
    } else if (c == "gausszero") {
      px->gauss_zero = (t[1] == "on");
    } else if (c == "alch") {
      px->alch_on = true;
      px->alch_a = todbl(t[1]);
      px->alch_b = todbl(t[2]);
      px->alch_lambda = todbl(t[3]);
    } else if (c == "accelmd") {
      px->amd_on = true;
      px->amd_factor = todbl(t[1]);
    } else if (c == "replicas") {
      // replicas <dir> <index> <num> <seed> <max_delay_us>
      px->set_replicas(t[1], atoi(t[2].c_str()), atoi(t[3].c_str()), strtoull(t[4].c_str(), 0, 10),
                       atoi(t[5].c_str()));
    } else if (c == "keeplog") {
      px->keep_log = (t[1] == "on");
    } else if (c == "echo") {
      px->echo = (t[1] == "on");
    } else if (c == "emit") {
      // emit cv|bias|atoms|steps on|off ; emit every N
      if (t[1] == "every") emit_every = atol(t[2].c_str());
      else {
        bool const on = (t[2] == "on");
        if (t[1] == "cv") emit_cv = on;
        else if (t[1] == "bias") emit_bias = on;
        else if (t[1] == "atoms") emit_atoms = on;
        else if (t[1] == "steps") emit_steps = on;
      }
    } else if (c == "module") {
      ensure_module();
    } else if (c == "prefix") {
      ensure_module();
      px->set_output_prefix(t.size() > 1 ? t[1] : "");
    } else if (c == "rprefix") {
      ensure_module();
      px->set_restart_output_prefix(t.size() > 1 ? t[1] : "");
    } else if (c == "inprefix") {
      ensure_module();
      px->set_input_prefix(t.size() > 1 ? t[1] : "");
    } else if (c == "rfreq") {
      ensure_module();
      px->set_default_restart_frequency(atoi(t[1].c_str()));
      px->colvars->restart_out_freq = size_t(atoi(t[1].c_str()));
    } else if (c == "setstep") {
      ensure_module();
      px->colvars->set_initial_step(cvm::step_number(atoll(t[1].c_str())));
    } else if (c == "config") {
      ensure_module();
      std::string const body = heredoc(t.size() > 1 && t[1].substr(0, 2) == "<<" ? t[1].substr(2) : "EOF");
      int const rc = px->colvars->read_config_string(body);
      emit("{\"ev\":\"config\",\"rc\":" + std::to_string(rc) + "," + errinfo() + ",\"errs\":" +
           errmsgs_and_clear() + ",\"ncv\":" + std::to_string(px->colvars->variables()->size()) +
           ",\"nbias\":" + std::to_string(px->colvars->biases.size()) + ",\"nact\":" +
           std::to_string(px->get_num_active_atoms()) +
           (px->keep_log ? ",\"log\":" + loglines_and_clear() : std::string("")) + "}");
    } else if (c == "configfile") {
      ensure_module();
      int const rc = px->colvars->read_config_file(t[1].c_str());
      emit("{\"ev\":\"config\",\"rc\":" + std::to_string(rc) + "," + errinfo() + ",\"errs\":" +
           errmsgs_and_clear() + ",\"ncv\":" + std::to_string(px->colvars->variables()->size()) +
           ",\"nbias\":" + std::to_string(px->colvars->biases.size()) + "}");
    } else if (c == "clearerr") {
      ensure_module();
      cvm::clear_error();
      px->err_lines.clear();
    } else if (c == "init") {
      ensure_module();
      int const rc = px->engine_init();
      emit("{\"ev\":\"init\",\"rc\":" + std::to_string(rc) + "," + errinfo() + ",\"it\":" +
           std::to_string((long long)cvm::step_absolute()) + ",\"errs\":" + errmsgs_and_clear() +
           (px->keep_log ? ",\"log\":" + loglines_and_clear() : std::string("")) + "}");
    } else if (c == "pos") {
      std::vector<double> v;
      read_n(t, 1, v);
      for (size_t k = 0; k < px->eng.size() && 3 * k + 2 < v.size(); k++) {
        px->eng[k].x = cvm::rvector(v[3 * k], v[3 * k + 1], v[3 * k + 2]);
      }
    } else if (c == "posa") {
      int const k = atoi(t[1].c_str()) - 1;
      px->eng.at(k).x = cvm::rvector(todbl(t[2]), todbl(t[3]), todbl(t[4]));
    } else if (c == "fext") {
      std::vector<double> v;
      read_n(t, 1, v);
      for (size_t k = 0; k < px->eng.size(); k++) {
        if (3 * k + 2 < v.size()) px->eng[k].fext = cvm::rvector(v[3 * k], v[3 * k + 1], v[3 * k + 2]);
        else px->eng[k].fext.reset();
      }
    } else if (c == "fexta") {
      int const k = atoi(t[1].c_str()) - 1;
      px->eng.at(k).fext = cvm::rvector(todbl(t[2]), todbl(t[3]), todbl(t[4]));
    } else if (c == "newrun") {
      px->begin_run();
    } else if (c == "endrun") {
      ensure_module();
      int const rc = px->end_run();
      emit("{\"ev\":\"endrun\",\"rc\":" + std::to_string(rc) + "," + errinfo() + ",\"errs\":" +
           errmsgs_and_clear() + "}");
    } else if (c == "step" || c == "eval" || c == "evalc") {
      ensure_module();
      long const n = (c == "step" && t.size() > 1) ? atol(t[1].c_str()) : 1;
      for (long i = 0; i < n; i++) {
        int rc;
        if (c == "step") rc = px->engine_step(true, false);
        else {
          bool const save_pending = px->new_run_pending;
          px->new_run_pending = false;
          bool const save_first = px->first_step_done;
          px->first_step_done = true;
          rc = px->engine_step(false, c == "evalc");
          px->new_run_pending = save_pending;
          (void)save_first;
        }
        nsteps_done++;
        if (emit_steps && (emit_every <= 1 || (cvm::step_absolute() % emit_every) == 0)) {
          emit(step_event(c.c_str(), rc));
        } else {
          px->err_lines.clear();
          px->log_lines.clear();
          px->schedule_log.clear();
        }
      }
    } else if (c == "fdsweep") {
      // fdsweep <h> <cont|nocont> [first atom] [last atom]  (1-based, inclusive)
      ensure_module();
      double const h = todbl(t[1]);
      bool const cont = t.size() > 2 && t[2] == "cont";
      size_t a0 = t.size() > 3 ? size_t(atoi(t[3].c_str()) - 1) : 0;
      size_t a1 = t.size() > 4 ? size_t(atoi(t[4].c_str())) : px->eng.size();
      bool const save_first = px->first_step_done;
      bool const save_pending = px->new_run_pending;
      px->first_step_done = true;
      px->new_run_pending = false;
      auto evalE = [&]() {
        px->engine_step(false, cont);
        return energy_sum();
      };
      double const e0 = evalE();
      std::string s = "{\"ev\":\"fdsweep\",\"h\":" + num(h) + ",\"it\":" +
                      std::to_string((long long)cvm::step_absolute()) + ",\"e0\":" + num(e0) + ",\"f0\":[";
      for (size_t k = 0; k < px->eng.size(); k++) {
        if (k) s += ",";
        s += vec(px->applied_force(int(k)));
      }
      s += "],\"err0\":" + std::to_string(cvm::get_error()) + ",\"d\":[";
      bool firstrow = true;
      for (size_t k = a0; k < a1 && k < px->eng.size(); k++) {
        for (int d = 0; d < 3; d++) {
          cvm::rvector const x0 = px->eng[k].x;
          double e[4];
          double const hs[4] = {h, -h, 0.5 * h, -0.5 * h};
          for (int j = 0; j < 4; j++) {
            cvm::rvector x = x0;
            x[d] += hs[j];
            px->eng[k].x = x;
            e[j] = evalE();
          }
          px->eng[k].x = x0;
          if (!firstrow) s += ",";
          firstrow = false;
          s += "[" + std::to_string(k) + "," + std::to_string(d) + "," + num(e[0]) + "," + num(e[1]) + "," +
               num(e[2]) + "," + num(e[3]) + "]";
        }
      }
      s += "]";
      double const e1 = evalE();
      s += ",\"e1\":" + num(e1) + ",\"f1\":[";
      for (size_t k = 0; k < px->eng.size(); k++) {
        if (k) s += ",";
        s += vec(px->applied_force(int(k)));
      }
      s += "]," + errinfo() + ",\"errs\":" + errmsgs_and_clear() + "}";
      emit(s);
      px->first_step_done = save_first;
      px->new_run_pending = save_pending;
    } else if (c == "save") {
      ensure_module();
      int const rc = px->colvars->write_restart_file(t[1]);
      emit("{\"ev\":\"save\",\"rc\":" + std::to_string(rc) + "," + errinfo() + "}");
    } else if (c == "savestr") {
      ensure_module();
      std::string st;
      int const rc = px->colvars->write_restart_string(st);
      emit("{\"ev\":\"savestr\",\"rc\":" + std::to_string(rc) + ",\"it\":" +
           std::to_string((long long)cvm::step_absolute()) + ",\"state\":" + esc(st) + "}");
    } else if (c == "savebuf") {
      ensure_module();
      std::vector<unsigned char> buf;
      int const rc = px->colvars->write_state_buffer(buf);
      emit("{\"ev\":\"savebuf\",\"rc\":" + std::to_string(rc) + ",\"it\":" +
           std::to_string((long long)cvm::step_absolute()) + ",\"hex\":\"" + hexenc(buf) + "\"}");
    } else if (c == "loadstr") {
      ensure_module();
      std::string const body = heredoc(t.size() > 1 && t[1].substr(0, 2) == "<<" ? t[1].substr(2) : "EOF");
      px->input_stream_from_string("input state string", body);
      int const rc = px->colvars->setup_input();
      emit("{\"ev\":\"load\",\"rc\":" + std::to_string(rc) + "," + errinfo() + ",\"it\":" +
           std::to_string((long long)cvm::step_absolute()) + ",\"errs\":" + errmsgs_and_clear() + "}");
    } else if (c == "loadbuf" || c == "loadbuffile") {
      ensure_module();
      std::vector<unsigned char> b;
      if (c == "loadbuf") b = hexdec(t[1]);
      else {
        std::ifstream f(t[1], std::ios::binary);
        b.assign(std::istreambuf_iterator<char>(f), std::istreambuf_iterator<char>());
      }
      px->colvars->set_input_state_buffer(b);
      int const rc = px->colvars->setup_input();
      emit("{\"ev\":\"load\",\"rc\":" + std::to_string(rc) + "," + errinfo() + ",\"it\":" +
           std::to_string((long long)cvm::step_absolute()) + ",\"errs\":" + errmsgs_and_clear() + "}");
    } else if (c == "load") {
      ensure_module();
      px->set_input_prefix(t[1]);
      int const rc = px->colvars->setup_input();
      emit("{\"ev\":\"load\",\"rc\":" + std::to_string(rc) + "," + errinfo() + ",\"it\":" +
           std::to_string((long long)cvm::step_absolute()) + ",\"errs\":" + errmsgs_and_clear() + "}");
    } else if (c == "script") {
      ensure_module();
      std::vector<std::string> a = parse_json_strs(line.substr(line.find('[')));
      std::vector<unsigned char *> argv;
      for (auto &w : a) argv.push_back(reinterpret_cast<unsigned char *>(const_cast<char *>(w.c_str())));
      int const rc = run_colvarscript_command(int(argv.size()), argv.data());
      char const *res = get_colvarscript_result();
      emit("{\"ev\":\"script\",\"rc\":" + std::to_string(rc) + "," + errinfo() + ",\"res\":" +
           esc(res ? res : "") + ",\"nact\":" + std::to_string(px->get_num_active_atoms()) +
           ",\"errs\":" + errmsgs_and_clear() + "}");
    } else if (c == "deps") {
      ensure_module();
      emit("{\"ev\":\"deps\",\"report\":" + colvars_verif_access::deps_check_json(px->colvars) + "}");
    } else if (c == "gauss") {
      std::string s = "{\"ev\":\"gauss\",\"g\":[";
      for (size_t i = 0; i < px->gauss_log.size(); i++) {
        if (i) s += ",";
        s += num(px->gauss_log[i]);
      }
      emit(s + "]}");
      px->gauss_log.clear();
    } else if (c == "mark") {
      emit("{\"ev\":\"mark\",\"tag\":" + esc(t.size() > 1 ? t[1] : "") + "}");
    } else if (c == "flush") {
      fflush(out);
    } else if (c == "abort_here") {
      fflush(out);
      _exit(41);
    } else if (c == "delete") {
      delete px;
      px = nullptr;
      emit("{\"ev\":\"deleted\"}");
      px = new verif_proxy(0);
    } else {
      fprintf(stderr, "esim: unknown command '%s' at line %ld\n", c.c_str(), lineno);
      return 2;
    }
  }
  return 0;
}

} // namespace


int main(int argc, char **argv)
{
  if (argc < 2) {
    fprintf(stderr, "usage: esim <scenario> [<eventlog>]\n");
    return 2;
  }
  if (argc > 2) {
    out = fopen(argv[2], "w");
    if (!out) {
      perror("esim: event log");
      return 2;
    }
  }
  std::ifstream in(argv[1]);
  if (!in) {
    fprintf(stderr, "esim: cannot open %s\n", argv[1]);
    return 2;
  }
  px = new verif_proxy(0);
  int rc = 0;
  try {
    rc = run(in);
  } catch (std::exception const &e) {
    emit(std::string("{\"ev\":\"exception\",\"what\":") + esc(e.what()) + "}");
    fflush(out);
    rc = 3;
  } catch (...) {
    emit("{\"ev\":\"exception\",\"what\":\"unknown\"}");
    fflush(out);
    rc = 3;
  }
  if (rc == 0) {
    emit("{\"ev\":\"end\"}");
    delete px;
    px = nullptr;
  }
  fflush(out);
  return rc;
}
