/* LD_PRELOAD failpoint for property C11: die in the middle of a write().
 *
 *   PW_PATTERN  substring of the path of the files of interest (readlink of /proc/self/fd/N)
 *   PW_NTH      1-based index, among write()/writev() calls on such files, of the call to cut
 *   PW_BYTES    number of leading bytes of that call that still reach the file
 *   PW_MARKER   file that receives one line "fired fd=.. len=.. kept=.. path=.." just before dying
 *
 *   PW_MODE     "error": instead of dying, the chosen call writes its first PW_BYTES bytes and then EVERY later write on such
 *               files fails with ENOSPC until PW_UNTIL calls (counted as above) have been seen (a disk that is full for a while);
 *               the marker receives "error ..." and the process lives on
 *
 * The chosen call writes its first PW_BYTES bytes and the process then kills itself with SIGKILL
 * (no atexit handlers, no stream flushing: the same as a power cut or `kill -9` at that instant).
 * All other calls are passed through untouched.  Built at run time by monitors/c11.py:
 *   gcc -O1 -shared -fPIC -o partial_write.so partial_write.c -ldl
 */
#define _GNU_SOURCE
#include <dlfcn.h>
#include <signal.h>
#include <stdio.h>
#include <stdlib.h>
#include <string.h>
#include <sys/types.h>
#include <sys/uio.h>
#include <unistd.h>
#include <fcntl.h>

static ssize_t (*real_write)(int, const void *, size_t);
static ssize_t (*real_writev)(int, const struct iovec *, int);
static long pw_count;

static int pw_match(int fd, char *path, size_t cap)
{
  const char *pat = getenv("PW_PATTERN");
  char link[64];
  ssize_t n;
  if (!pat || !*pat) return 0;
  snprintf(link, sizeof(link), "/proc/self/fd/%d", fd);
  n = readlink(link, path, cap - 1);
  if (n <= 0) return 0;
  path[n] = 0;
  return strstr(path, pat) != NULL;
}

static void pw_write_all(int fd, const char *p, size_t n)
{
  while (n > 0) {
    ssize_t r = real_write(fd, p, n);
    if (r <= 0) break;
    p += r;
    n -= (size_t)r;
  }
}

static void pw_die(int fd, size_t len, size_t kept, const char *path)
{
  const char *mk = getenv("PW_MARKER");
  if (mk && *mk) {
    int m = open(mk, O_WRONLY | O_CREAT | O_TRUNC, 0644);
    if (m >= 0) {
      char line[4400];
      int k = snprintf(line, sizeof(line), "fired fd=%d len=%zu kept=%zu path=%s\n", fd, len, kept, path);
      if (k > 0) real_write(m, line, (size_t)k);
      close(m);
    }
  }
  kill(getpid(), SIGKILL);
  _exit(137);
}

#include <errno.h>

static void pw_mark_error(int fd, size_t len, size_t kept, const char *path)
{
  const char *mk = getenv("PW_MARKER");
  if (mk && *mk) {
    int m = open(mk, O_WRONLY | O_CREAT | O_APPEND, 0644);
    if (m >= 0) {
      char line[4400];
      int k = snprintf(line, sizeof(line), "error fd=%d len=%zu kept=%zu path=%s\n", fd, len, kept, path);
      if (k > 0) real_write(m, line, (size_t)k);
      close(m);
    }
  }
}

/* 0: pass through; 1: the chosen call (kill mode, or first failing call of error mode); 2: a later failing call (error mode) */
static int pw_is_target(int fd, char *path, size_t cap)
{
  const char *nth = getenv("PW_NTH");
  const char *mode = getenv("PW_MODE");
  const char *until = getenv("PW_UNTIL");
  if (!nth) return 0;
  if (!pw_match(fd, path, cap)) return 0;
  pw_count++;
  if (pw_count == atol(nth)) return 1;
  if (mode && !strcmp(mode, "error") && pw_count > atol(nth) && until && pw_count <= atol(until)) return 2;
  return 0;
}

static int pw_error_mode(void)
{
  const char *mode = getenv("PW_MODE");
  return mode && !strcmp(mode, "error");
}

ssize_t write(int fd, const void *buf, size_t n)
{
  char path[4096];
  if (!real_write) real_write = (ssize_t(*)(int, const void *, size_t))dlsym(RTLD_NEXT, "write");
  int t = pw_is_target(fd, path, sizeof(path));
  if (t) {
    const char *b = getenv("PW_BYTES");
    size_t keep = b ? (size_t)strtoull(b, 0, 10) : 0;
    if (keep > n) keep = n;
    if (t == 2) keep = 0;
    pw_write_all(fd, (const char *)buf, keep);
    if (pw_error_mode()) {
      pw_mark_error(fd, n, keep, path);
      errno = ENOSPC;
      return -1;
    }
    pw_die(fd, n, keep, path);
  }
  return real_write(fd, buf, n);
}

ssize_t writev(int fd, const struct iovec *iov, int cnt)
{
  char path[4096];
  if (!real_write) real_write = (ssize_t(*)(int, const void *, size_t))dlsym(RTLD_NEXT, "write");
  if (!real_writev) real_writev = (ssize_t(*)(int, const struct iovec *, int))dlsym(RTLD_NEXT, "writev");
  int t = pw_is_target(fd, path, sizeof(path));
  if (t) {
    const char *b = getenv("PW_BYTES");
    size_t keep = b ? (size_t)strtoull(b, 0, 10) : 0;
    size_t total = 0, left;
    int i;
    for (i = 0; i < cnt; i++) total += iov[i].iov_len;
    if (keep > total) keep = total;
    if (t == 2) keep = 0;
    left = keep;
    for (i = 0; i < cnt && left > 0; i++) {
      size_t k = iov[i].iov_len < left ? iov[i].iov_len : left;
      pw_write_all(fd, (const char *)iov[i].iov_base, k);
      left -= k;
    }
    if (pw_error_mode()) {
      pw_mark_error(fd, total, keep, path);
      errno = ENOSPC;
      return -1;
    }
    pw_die(fd, total, keep, path);
  }
  return real_writev(fd, iov, cnt);
}
