// h_values: in-process harness for property C18 (distances, gradients, wrapping, interpolation).
//
//   h_values <seed> <cases per (subject, pair class)>
//
// Calls the REAL functions
//   colvarvalue::dist2 / dist2_grad / interpolate / apply_constraints        ("static" subjects)
//   colvar::dist2 / dist2_lgrad / dist2_rgrad / wrap on configured colvars   ("cv" subjects)
// on generated pairs and prints the raw results as JSON lines.  Nothing is decided here: the
// harness only generates inputs (uniform on the manifold + adversarial classes), evaluates the code
// under test and prints numbers with 17 significant digits; monitors/c18.py holds the oracle.
//
// Output records ("k"):
//   subject  one per subject: index, name, value type, manifold, period / wrap centre / cell
//   pair     one per generated pair: inputs a,b; d2(a,b), d2(b,a), d2(a,a), d2(b,b); distances to
//            equivalent values (a + n*period, -q, a + n*cell); reported left/right gradients;
//            d2 at a and b displaced by +-h, +-h/2 along random tangent directions (retracted to the
//            manifold by the harness's own arithmetic); wrap(a), wrap(b); interpolate(a,b,lambda)
//   ac       apply_constraints(): input, output (all seven types; the two "derivative" types must
//            be left alone).  interpolate() is not defined for the derivative types (it calls
//            dist2(), which raises a bug error for them) and the element-wise branch of
//            apply_constraints() for vectors is unreachable (add_elem() has no caller), so neither
//            is driven.
//   end      totals
#include <cmath>
#include <cstdio>
#include <cstdlib>
#include <cstring>
#include <random>
#include <string>
#include <vector>

#include "colvarmodule.h"
#include "colvar.h"
#include "colvarvalue.h"
#include "colvarproxy.h"

#include "verif_proxy.h"

namespace {

typedef std::vector<double> dv;

verif_proxy *px = nullptr;
std::mt19937_64 rng;
long n_calls = 0;   // number of calls into the code under test

double uni() { return std::uniform_real_distribution<double>(0.0, 1.0)(rng); }
double uni(double a, double b) { return a + (b - a) * uni(); }
double gauss() { return std::normal_distribution<double>(0.0, 1.0)(rng); }
int irand(int a, int b) { return std::uniform_int_distribution<int>(a, b)(rng); }   // inclusive

enum man_t { M_R, M_S1, M_RN, M_T3, M_S2, M_S3 };
char const *man_name[] = {"R", "S1", "Rn", "T3", "S2", "S3"};

struct subject {
  int idx = 0;
  std::string name;          // key component: "<type>" (static API) or "<type>@<component>"
  std::string type;          // value type keyword
  colvarvalue::Type vt = colvarvalue::type_scalar;
  man_t man = M_R;
  int dim = 1;
  double P = 0.0, c = 0.0;   // S1
  double L[3] = {0, 0, 0};   // T3
  colvar *cv = nullptr;      // null: static colvarvalue API
};

std::string jnum(double x) { return vjson::num(x); }

std::string jarr(dv const &v)
{
  std::string s = "[";
  for (size_t i = 0; i < v.size(); i++) {
    if (i) s += ",";
    s += jnum(v[i]);
  }
  return s + "]";
}

colvarvalue mk(colvarvalue::Type vt, dv const &x)
{
  switch (vt) {
  case colvarvalue::type_scalar:
    return colvarvalue(x[0]);
  case colvarvalue::type_3vector:
  case colvarvalue::type_unit3vector:
  case colvarvalue::type_unit3vectorderiv:
    return colvarvalue(cvm::rvector(x[0], x[1], x[2]), vt);
  case colvarvalue::type_quaternion:
  case colvarvalue::type_quaternionderiv:
    return colvarvalue(cvm::quaternion(x[0], x[1], x[2], x[3]), vt);
  case colvarvalue::type_vector: {
    cvm::vector1d<cvm::real> v(x.size());
    for (size_t i = 0; i < x.size(); i++) v[i] = x[i];
    return colvarvalue(v, colvarvalue::type_vector);
  }
  default:
    return colvarvalue(colvarvalue::type_notset);
  }
}

dv flat(colvarvalue const &v)
{
  dv r;
  size_t const n = v.size();
  for (size_t i = 0; i < n; i++) r.push_back(v[int(i)]);
  return r;
}

// ---- the code under test -------------------------------------------------------------------

double D2(subject const &s, dv const &a, dv const &b)
{
  n_calls++;
  colvarvalue const A = mk(s.vt, a), B = mk(s.vt, b);
  return s.cv ? s.cv->dist2(A, B) : A.dist2(B);
}

dv LGRAD(subject const &s, dv const &a, dv const &b)
{
  n_calls++;
  colvarvalue const A = mk(s.vt, a), B = mk(s.vt, b);
  return flat(s.cv ? s.cv->dist2_lgrad(A, B) : A.dist2_grad(B));
}

dv RGRAD(subject const &s, dv const &a, dv const &b)
{
  n_calls++;
  colvarvalue const A = mk(s.vt, a), B = mk(s.vt, b);
  return flat(s.cv->dist2_rgrad(A, B));
}

dv WRAP(subject const &s, dv const &a)
{
  n_calls++;
  colvarvalue A = mk(s.vt, a);
  s.cv->wrap(A);
  return flat(A);
}

// ---- harness-side arithmetic (never the code under test) --------------------------------------

double dot(dv const &a, dv const &b)
{
  double s = 0.0;
  for (size_t i = 0; i < a.size(); i++) s += a[i] * b[i];
  return s;
}

double nrm(dv const &a) { return std::sqrt(dot(a, a)); }

dv axpy(dv const &a, double h, dv const &t)
{
  dv r(a);
  for (size_t i = 0; i < a.size(); i++) r[i] = a[i] + h * t[i];
  return r;
}

dv scaled(dv const &a, double s)
{
  dv r(a);
  for (double &x : r) x *= s;
  return r;
}

dv normalised(dv const &a) { return scaled(a, 1.0 / nrm(a)); }

bool sphere(man_t m) { return m == M_S2 || m == M_S3; }

dv retract(subject const &s, dv const &a) { return sphere(s.man) ? normalised(a) : a; }

dv gvec(int n)
{
  dv r(n);
  for (double &x : r) x = gauss();
  return r;
}

/// random unit tangent direction at a
dv tangent(subject const &s, dv const &a)
{
  if (s.dim == 1) return dv(1, 1.0);
  for (;;) {
    dv t = gvec(s.dim);
    if (sphere(s.man)) {
      double const p = dot(t, a) / dot(a, a);
      for (int i = 0; i < s.dim; i++) t[i] -= p * a[i];
      // second pass: the projection itself rounds
      double const p2 = dot(t, a) / dot(a, a);
      for (int i = 0; i < s.dim; i++) t[i] -= p2 * a[i];
    }
    double const n = nrm(t);
    if (n > 0.1) return scaled(t, 1.0 / n);
  }
}

double maxabs(dv const &a)
{
  double m = 0.0;
  for (double x : a) m = std::fmax(m, std::fabs(x));
  return m;
}

double pow2floor(double x) { return std::ldexp(1.0, int(std::floor(std::log2(x)))); }

/// uniform point of the manifold (bounded region for the flat ones)
dv random_point(subject const &s)
{
  switch (s.man) {
  case M_R:
    return dv(1, uni(-50.0, 50.0));
  case M_S1:
    return dv(1, s.c + uni(-3.0, 3.0) * s.P);
  case M_RN: {
    double const sc = std::pow(10.0, uni(-1.0, 1.0));
    return scaled(gvec(s.dim), sc);
  }
  case M_T3: {
    dv r(3);
    for (int i = 0; i < 3; i++) r[i] = uni(-1.5, 1.5) * s.L[i];
    return r;
  }
  case M_S2:
  case M_S3:
  default:
    return normalised(gvec(s.dim));
  }
}

std::vector<std::string> classes_of(subject const &s)
{
  switch (s.man) {
  case M_R: return {"random", "identical", "near", "far"};
  case M_S1: return {"random", "identical", "near", "period_shift", "half_period_margin", "cut_exact",
                     "wrap_boundary"};
  case M_RN: return {"random", "identical", "near", "far"};
  case M_T3: return {"random", "identical", "near", "period_shift", "half_period_margin"};
  case M_S2: return {"random", "identical", "near", "antipodal_margin", "antipodal_exact", "axis"};
  case M_S3: return {"random", "identical", "near", "sign_flip", "near_flip", "orthogonal_margin",
                     "cut_exact"};
  }
  return {};
}

/// generate a pair of the class; returns false if the class does not apply
void make_pair(subject const &s, std::string const &cl, dv &a, dv &b)
{
  a = random_point(s);
  b = random_point(s);
  if (cl == "random") return;
  if (cl == "identical") {
    b = a;
    return;
  }
  if (cl == "near") {
    double const sc = sphere(s.man) ? 1.0 : (s.man == M_S1 ? s.P : std::fmax(1.0, maxabs(a)));
    b = retract(s, axpy(a, 1.0e-9 * sc, tangent(s, a)));
    return;
  }
  if (cl == "far") {
    double const sc = std::pow(10.0, uni(4.0, 8.0));
    a = scaled(s.dim == 1 ? dv(1, uni(-1.0, 1.0)) : gvec(s.dim), sc);
    if (uni() < 0.5) b = axpy(a, uni(0.1, 10.0), tangent(s, a));   // far from 0, close to each other
    else b = scaled(s.dim == 1 ? dv(1, uni(-1.0, 1.0)) : gvec(s.dim), sc);
    return;
  }
  if (s.man == M_S1) {
    if (cl == "period_shift") {
      int n = irand(1, 4);
      if (n == 4) n = 10;
      if (uni() < 0.5) n = -n;
      b = dv(1, a[0] + n * s.P);
    } else if (cl == "half_period_margin") {
      double const m = std::pow(10.0, uni(-3.0, -1.0)) * s.P;
      b = dv(1, a[0] + (uni() < 0.5 ? 1.0 : -1.0) * (0.5 * s.P - m) + irand(-2, 2) * s.P);
    } else if (cl == "cut_exact") {
      a = dv(1, s.c + irand(-256, 256) * s.P / 128.0);   // dyadic fractions of the period
      b = dv(1, a[0] + (uni() < 0.5 ? 0.5 : -0.5) * s.P);
    } else if (cl == "wrap_boundary") {
      double x = s.c + (irand(-4, 3) + 0.5) * s.P;
      int const j = irand(-2, 2);
      for (int k = 0; k < std::abs(j); k++) x = std::nextafter(x, j > 0 ? INFINITY : -INFINITY);
      a = dv(1, x);
    }
    return;
  }
  if (s.man == M_T3) {
    if (cl == "period_shift") {
      b = a;
      for (int i = 0; i < 3; i++) b[i] = a[i] + irand(-2, 2) * s.L[i];
      int const i = irand(0, 2);
      if (b[i] == a[i]) b[i] = a[i] + s.L[i];
    } else if (cl == "half_period_margin") {
      int const i = irand(0, 2);
      double const m = std::pow(10.0, uni(-3.0, -1.0)) * s.L[i];
      b[i] = a[i] + (uni() < 0.5 ? 1.0 : -1.0) * (0.5 * s.L[i] - m);
    }
    return;
  }
  if (s.man == M_S2) {
    if (cl == "antipodal_margin") {
      double const m = std::pow(10.0, uni(-3.0, -0.5));
      dv const t = tangent(s, a);
      b = normalised(axpy(scaled(a, -std::cos(m)), std::sin(m), t));
    } else if (cl == "antipodal_exact") {
      b = scaled(a, -1.0);
    } else if (cl == "axis") {
      // exactly representable unit vectors: all inner products are exactly -1, 0 or 1
      a = dv(3, 0.0);
      b = dv(3, 0.0);
      a[irand(0, 2)] = uni() < 0.5 ? 1.0 : -1.0;
      b[irand(0, 2)] = uni() < 0.5 ? 1.0 : -1.0;
    }
    return;
  }
  if (s.man == M_S3) {
    if (cl == "sign_flip") {
      b = scaled(a, -1.0);
    } else if (cl == "near_flip") {
      b = scaled(retract(s, axpy(a, 1.0e-9, tangent(s, a))), -1.0);
    } else if (cl == "orthogonal_margin") {
      double const m = std::pow(10.0, uni(-3.0, -0.5)) * (uni() < 0.5 ? 1.0 : -1.0);
      double const w = 0.5 * M_PI + m;
      dv const t = tangent(s, a);
      b = normalised(axpy(scaled(a, std::cos(w)), std::sin(w), t));
      if (uni() < 0.5) b = scaled(b, -1.0);
    } else if (cl == "cut_exact") {
      if (uni() < 0.5) {
        a = dv(4, 0.0);
        b = dv(4, 0.0);
        int const i = irand(0, 3);
        a[i] = 1.0;
        b[(i + irand(1, 3)) % 4] = uni() < 0.5 ? 1.0 : -1.0;
      } else {
        b = tangent(s, a);
      }
    }
    return;
  }
}

double fd_step(subject const &s, dv const &a, dv const &b)
{
  switch (s.man) {
  case M_R:
  case M_RN:
    return pow2floor(std::fmax(1.0, std::fmax(maxabs(a), maxabs(b)))) / 1024.0;
  case M_S1:
    return pow2floor(s.P) / 4096.0;
  case M_T3:
    return pow2floor(std::fmin(s.L[0], std::fmin(s.L[1], s.L[2]))) / 4096.0;
  default:
    return 1.0 / 4096.0;
  }
}

std::string errs_json()
{
  std::string s = "\"nerr\":" + std::to_string(px->err_lines.size());
  if (!px->err_lines.empty()) s += ",\"err\":" + vjson::esc(px->err_lines[0].substr(0, 160));
  px->err_lines.clear();
  cvm::clear_error();
  return s;
}

void run_pair(subject const &s, std::string const &cl)
{
  dv a, b;
  make_pair(s, cl, a, b);
  px->err_lines.clear();
  cvm::clear_error();

  std::string cls = cl;
  if (cl == "axis") {
    double const ab = dot(a, b);
    cls = ab > 0.5 ? "axis_identical" : (ab < -0.5 ? "axis_antipodal" : "axis_orthogonal");
  }
  std::string o = "{\"k\":\"pair\",\"s\":" + std::to_string(s.idx) + ",\"cl\":\"" + cls + "\"";
  o += ",\"a\":" + jarr(a) + ",\"b\":" + jarr(b);
  o += ",\"d\":[" + jnum(D2(s, a, b)) + "," + jnum(D2(s, b, a)) + "," + jnum(D2(s, a, a)) + "," +
       jnum(D2(s, b, b)) + "]";

  // equivalent values
  o += ",\"eq\":[";
  if (s.man == M_S1) {
    int ns[3] = {1, -1, irand(2, 12) * (uni() < 0.5 ? 1 : -1)};
    for (int j = 0; j < 3; j++) {
      dv const a2(1, a[0] + ns[j] * s.P), b2(1, b[0] + ns[j] * s.P);
      if (j) o += ",";
      o += "{\"n\":[" + std::to_string(ns[j]) + "],\"v\":[" + jnum(D2(s, a2, b)) + "," + jnum(D2(s, a, b2)) +
           "," + jnum(D2(s, a2, a)) + "]}";
    }
  } else if (s.man == M_S3) {
    dv const a2 = scaled(a, -1.0), b2 = scaled(b, -1.0);
    o += "{\"n\":[-1],\"v\":[" + jnum(D2(s, a2, b)) + "," + jnum(D2(s, a, b2)) + "," + jnum(D2(s, a2, a)) +
         "," + jnum(D2(s, a2, b2)) + "]}";
  } else if (s.man == M_T3) {
    for (int j = 0; j < 2; j++) {
      int n[3];
      dv a2(a), b2(b);
      bool any = false;
      for (int i = 0; i < 3; i++) {
        n[i] = irand(-2, 2);
        any = any || n[i];
      }
      if (!any) n[j] = 1;
      for (int i = 0; i < 3; i++) {
        a2[i] = a[i] + n[i] * s.L[i];
        b2[i] = b[i] + n[i] * s.L[i];
      }
      if (j) o += ",";
      o += "{\"n\":[" + std::to_string(n[0]) + "," + std::to_string(n[1]) + "," + std::to_string(n[2]) +
           "],\"v\":[" + jnum(D2(s, a2, b)) + "," + jnum(D2(s, a, b2)) + "," + jnum(D2(s, a2, a)) + "]}";
    }
  }
  o += "]";

  // gradients and finite differences
  o += ",\"g\":" + jarr(LGRAD(s, a, b));
  if (s.cv) o += ",\"gr\":" + jarr(RGRAD(s, a, b));
  double const h = fd_step(s, a, b);
  int const ndir = s.dim == 1 ? 1 : 2;
  o += ",\"h\":" + jnum(h) + ",\"fd\":[";
  for (int k = 0; k < ndir; k++) {
    dv const t = tangent(s, a);
    dv const u = tangent(s, b);
    double const hs[4] = {h, -h, 0.5 * h, -0.5 * h};
    if (k) o += ",";
    o += "{\"t\":" + jarr(t) + ",\"p\":[";
    for (int j = 0; j < 4; j++) {
      if (j) o += ",";
      o += jnum(D2(s, retract(s, axpy(a, hs[j], t)), b));
    }
    o += "]";
    if (s.cv) {
      o += ",\"u\":" + jarr(u) + ",\"q\":[";
      for (int j = 0; j < 4; j++) {
        if (j) o += ",";
        o += jnum(D2(s, a, retract(s, axpy(b, hs[j], u))));
      }
      o += "]";
    }
    o += "}";
  }
  o += "]";

  // wrap (colvar level)
  if (s.cv && s.man != M_T3) {
    o += ",\"w\":[" + jarr(WRAP(s, a)) + "," + jarr(WRAP(s, b)) + "]";
  }

  // interpolation (static API)
  // (exactly antipodal unit vectors: documented as undefined, the code raises an input error)
  if (!s.cv && !(s.man == M_S2 && dot(a, b) < -1.0 + 1.0e-6)) {
    double const ls[5] = {0.0, 1.0, 0.5, uni(), uni()};
    o += ",\"ip\":[";
    for (int j = 0; j < 5; j++) {
      n_calls++;
      size_t const nerr0 = px->err_lines.size();
      colvarvalue const r = colvarvalue::interpolate(mk(s.vt, a), mk(s.vt, b), ls[j]);
      if (j) o += ",";
      o += "{\"l\":" + jnum(ls[j]) + ",\"ty\":" + std::to_string(int(r.type())) + ",\"r\":" + jarr(flat(r));
      if (px->err_lines.size() > nerr0) {
        // an error reported by interpolate() itself is attributed to this call
        o += ",\"e\":" + vjson::esc(px->err_lines[nerr0].substr(0, 200));
        px->err_lines.resize(nerr0);
        cvm::clear_error();
      }
      o += "}";
    }
    o += "]";
  }
  o += "," + errs_json() + "}";
  puts(o.c_str());
}


// apply_constraints on every type
void run_constraints(int n)
{
  struct tt { colvarvalue::Type vt; char const *name; int dim; };
  tt const types[] = {{colvarvalue::type_scalar, "scalar", 1},
                      {colvarvalue::type_3vector, "3vector", 3},
                      {colvarvalue::type_unit3vector, "unit3vector", 3},
                      {colvarvalue::type_unit3vectorderiv, "unit3vectorderiv", 3},
                      {colvarvalue::type_quaternion, "quaternion", 4},
                      {colvarvalue::type_quaternionderiv, "quaternionderiv", 4},
                      {colvarvalue::type_vector, "vector", 0}};
  for (tt const &t : types) {
    for (int i = 0; i < n; i++) {
      int const dim = t.dim ? t.dim : irand(1, 9);
      char const *cl = "random";
      dv in = scaled(gvec(dim), std::pow(10.0, uni(-3.0, 3.0)));
      if (i % 4 == 1) {
        in = normalised(gvec(dim));   // already on the manifold
        cl = "on_manifold";
      } else if (i % 4 == 2) {
        in = dv(dim, 0.0);            // axis-aligned, exactly representable
        in[irand(0, dim - 1)] = std::ldexp(uni() < 0.5 ? 1.0 : -1.0, irand(-20, 20));
        cl = "axis";
      }
      px->err_lines.clear();
      colvarvalue v = mk(t.vt, in);
      n_calls++;
      v.apply_constraints();
      std::string o = std::string("{\"k\":\"ac\",\"type\":\"") + t.name + "\",\"cl\":\"" + cl + "\",\"in\":" +
                      jarr(in) + ",\"out\":" + jarr(flat(v)) + ",\"ty\":" + std::to_string(int(v.type())) +
                      ",\"ty0\":" + std::to_string(int(t.vt)) + "," + errs_json() + "}";
      puts(o.c_str());
    }
  }
}


std::string posstr(cvm::rvector const &v)
{
  return "(" + jnum(v.x) + ", " + jnum(v.y) + ", " + jnum(v.z) + ")";
}

std::string grp(char const *key, std::vector<int> const &ids)
{
  std::string s = std::string("    ") + key + " {\n      atomNumbers";
  for (int i : ids) s += " " + std::to_string(i);
  return s + "\n    }\n";
}

void describe(subject const &s)
{
  std::string o = "{\"k\":\"subject\",\"s\":" + std::to_string(s.idx) + ",\"name\":\"" + s.name + "\",\"type\":\"" +
                  s.type + "\",\"man\":\"" + man_name[s.man] + "\",\"dim\":" + std::to_string(s.dim) +
                  ",\"api\":\"" + (s.cv ? "colvar" : "colvarvalue") + "\",\"P\":" + jnum(s.P) + ",\"c\":" +
                  jnum(s.c) + ",\"L\":[" + jnum(s.L[0]) + "," + jnum(s.L[1]) + "," + jnum(s.L[2]) + "]";
  if (s.cv) {
    o += ",\"cvtype\":" + std::to_string(int(s.cv->value().type())) + ",\"cvdim\":" +
         std::to_string(s.cv->value().size());
  }
  o += "}";
  puts(o.c_str());
}

} // namespace


int main(int argc, char **argv)
{
  if (argc < 3) {
    fprintf(stderr, "usage: h_values <seed> <cases per class>\n");
    return 2;
  }
  unsigned long long const seed = strtoull(argv[1], nullptr, 10);
  int const ncases = atoi(argv[2]);
  rng.seed(seed * 0x9E3779B97F4A7C15ULL + 12345ULL);
  static char obuf[1 << 20];
  setvbuf(stdout, obuf, _IOFBF, sizeof(obuf));

  int const natoms = 12;
  px = new verif_proxy(natoms);
  px->colvars = new colvarmodule(px);
  px->colvars->cv_traj_freq = 0;
  px->colvars->restart_out_freq = 0;
  for (int k = 0; k < natoms; k++) {
    // jittered lattice: no degenerate geometry
    px->eng[k].x = cvm::rvector(3.0 * (k % 3) + uni(-0.6, 0.6), 3.0 * ((k / 3) % 2) + uni(-0.6, 0.6),
                                3.0 * (k / 6) + uni(-0.6, 0.6));
    px->eng[k].mass = uni(1.0, 16.0);
  }

  // periods and wrap centres: dyadic, so that boundary cases are exact
  double const dz_P = irand(8, 160) / 8.0;
  double const dz_c = irand(-160, 160) / 16.0;
  double const dih_c = irand(-720, 720) / 4.0;
  double const spin_c = irand(-720, 720) / 4.0;

  std::string refpos;
  for (int k = 0; k < 6; k++) {
    refpos += " " + posstr(cvm::rvector(3.0 * (k % 3) + uni(-0.5, 0.5), 3.0 * ((k / 3) % 2) + uni(-0.5, 0.5),
                                        uni(-0.5, 0.5)));
  }

  std::string cfg;
  auto cvdef = [&](std::string const &name, std::string const &comp, std::string const &body) {
    cfg += "colvar {\n  name " + name + "\n  " + comp + " {\n" + body + "  }\n}\n";
  };
  cvdef("cv_dist", "distance", grp("group1", {1, 2, 3}) + grp("group2", {4, 5, 6}));
  cvdef("cv_dihed", "dihedral", grp("group1", {1}) + grp("group2", {2, 5}) + grp("group3", {6}) + grp("group4", {9, 10}));
  cvdef("cv_dihed_w", "dihedral",
        grp("group1", {1}) + grp("group2", {2, 5}) + grp("group3", {6}) + grp("group4", {9, 10}) +
            "    wrapAround " + jnum(dih_c) + "\n");
  cvdef("cv_dz", "distanceZ",
        grp("main", {1, 2, 3}) + grp("ref", {7, 8, 9}) + "    period " + jnum(dz_P) + "\n    wrapAround " +
            jnum(dz_c) + "\n");
  cvdef("cv_spin", "spinAngle",
        grp("atoms", {1, 2, 3, 4, 5, 6}) + "    refPositions" + refpos + "\n    axis (0.3, -0.4, 1.0)\n" +
            "    wrapAround " + jnum(spin_c) + "\n");
  cvdef("cv_dir", "distanceDir", grp("group1", {1, 2, 3}) + grp("group2", {4, 5, 6}));
  cvdef("cv_vec", "distanceVec", grp("group1", {1, 2, 3}) + grp("group2", {4, 5, 6}));
  cvdef("cv_vec_nopbc", "distanceVec",
        grp("group1", {1, 2, 3}) + grp("group2", {4, 5, 6}) + "    forceNoPBC on\n");
  cvdef("cv_ori", "orientation", grp("atoms", {1, 2, 3, 4, 5, 6}) + "    refPositions" + refpos + "\n");
  cvdef("cv_pairs", "distancePairs", grp("group1", {1, 2}) + grp("group2", {4, 5, 6}));
  cvdef("cv_cart", "cartesian", grp("atoms", {1, 2, 3}));

  int rc = px->colvars->read_config_string(cfg);
  rc |= px->engine_init();
  rc |= px->engine_step(true, false);
  if (rc != COLVARS_OK || cvm::get_error() || px->colvars->variables()->size() != 11) {
    std::string o = "{\"k\":\"setup_failed\",\"rc\":" + std::to_string(rc) + ",\"ncv\":" +
                    std::to_string(px->colvars->variables()->size()) + "," + errs_json() + "}";
    puts(o.c_str());
    fflush(stdout);
    return 3;
  }

  std::vector<subject> subs;
  auto add = [&](std::string const &type, colvarvalue::Type vt, man_t man, int dim, char const *cvname,
                 char const *comp, double P, double c) {
    subject s;
    s.idx = int(subs.size());
    s.type = type;
    s.vt = vt;
    s.man = man;
    s.dim = dim;
    s.P = P;
    s.c = c;
    s.name = type;
    if (cvname) {
      s.cv = cvm::colvar_by_name(cvname);
      s.name = type + "@" + comp;
      if (!s.cv) {
        fprintf(stderr, "h_values: colvar %s not found\n", cvname);
        exit(3);
      }
      if (vt == colvarvalue::type_vector) s.dim = int(s.cv->value().size());
    }
    subs.push_back(s);
  };
  // static API
  add("scalar", colvarvalue::type_scalar, M_R, 1, nullptr, nullptr, 0, 0);
  add("3vector", colvarvalue::type_3vector, M_RN, 3, nullptr, nullptr, 0, 0);
  add("unit3vector", colvarvalue::type_unit3vector, M_S2, 3, nullptr, nullptr, 0, 0);
  add("quaternion", colvarvalue::type_quaternion, M_S3, 4, nullptr, nullptr, 0, 0);
  add("vector", colvarvalue::type_vector, M_RN, irand(1, 9), nullptr, nullptr, 0, 0);
  // colvar level
  add("scalar", colvarvalue::type_scalar, M_R, 1, "cv_dist", "distance", 0, 0);
  add("periodic", colvarvalue::type_scalar, M_S1, 1, "cv_dihed", "dihedral", 360.0, 0.0);
  add("periodic", colvarvalue::type_scalar, M_S1, 1, "cv_dihed_w", "dihedral_wrapAround", 360.0, dih_c);
  add("periodic", colvarvalue::type_scalar, M_S1, 1, "cv_dz", "distanceZ_period", dz_P, dz_c);
  add("periodic", colvarvalue::type_scalar, M_S1, 1, "cv_spin", "spinAngle", 360.0, spin_c);
  add("unit3vector", colvarvalue::type_unit3vector, M_S2, 3, "cv_dir", "distanceDir", 0, 0);
  add("3vector", colvarvalue::type_3vector, M_RN, 3, "cv_vec", "distanceVec", 0, 0);
  add("3vector", colvarvalue::type_3vector, M_RN, 3, "cv_vec_nopbc", "distanceVec_forceNoPBC", 0, 0);
  add("quaternion", colvarvalue::type_quaternion, M_S3, 4, "cv_ori", "orientation", 0, 0);
  add("vector", colvarvalue::type_vector, M_RN, 0, "cv_pairs", "distancePairs", 0, 0);
  add("vector", colvarvalue::type_vector, M_RN, 0, "cv_cart", "cartesian", 0, 0);

  long npairs = 0;
  for (subject const &s : subs) {
    describe(s);
    for (std::string const &cl : classes_of(s)) {
      for (int i = 0; i < ncases; i++) {
        run_pair(s, cl);
        npairs++;
      }
    }
  }

  // distanceVec inside a periodic cell: the metric is the minimum-image one
  {
    double const L[3] = {irand(64, 256) / 8.0, irand(64, 256) / 8.0, irand(64, 256) / 8.0};
    px->set_cell(true, L[0], L[1], L[2]);
    subject s;
    s.idx = int(subs.size());
    s.type = "3vector_pbc";
    s.name = "3vector_pbc@distanceVec";
    s.vt = colvarvalue::type_3vector;
    s.man = M_T3;
    s.dim = 3;
    for (int i = 0; i < 3; i++) s.L[i] = L[i];
    s.cv = cvm::colvar_by_name("cv_vec");
    subs.push_back(s);
    describe(s);
    for (std::string const &cl : classes_of(s)) {
      for (int i = 0; i < ncases; i++) {
        run_pair(s, cl);
        npairs++;
      }
    }
    // in the same cell, a distanceVec defined with forceNoPBC: its metric stays the plain Euclidean one (value pairs further
    // apart than half a cell included), and the gradients must be those of that metric
    {
      subject s2;
      s2.idx = int(subs.size());
      s2.type = "3vector";
      s2.name = "3vector@distanceVec_forceNoPBC_in_cell";
      s2.vt = colvarvalue::type_3vector;
      s2.man = M_RN;
      s2.dim = 3;
      s2.cv = cvm::colvar_by_name("cv_vec_nopbc");
      subs.push_back(s2);
      describe(s2);
      for (std::string const &cl : classes_of(s2)) {
        for (int i = 0; i < ncases; i++) {
          run_pair(s2, cl);
          npairs++;
        }
      }
    }
    px->set_cell(false, 0, 0, 0);
  }

  // wrap centre and period changed at run time (cv colvar <name> modifycvcs ...): the variable-level metric and wrap()
  // follow the component's new parameters
  {
    double const dih_c2 = irand(-720, 720) / 4.0;
    double const dz_P2 = irand(8, 160) / 8.0;
    double const dz_c2 = irand(-160, 160) / 16.0;
    colvar *cvd = cvm::colvar_by_name("cv_dihed_w");
    colvar *cvz = cvm::colvar_by_name("cv_dz");
    int rc2 = cvd->update_cvc_config(std::vector<std::string>(1, "wrapAround " + jnum(dih_c2) + "\n"));
    rc2 |= cvz->update_cvc_config(std::vector<std::string>(1, "period " + jnum(dz_P2) + "\nwrapAround " + jnum(dz_c2) + "\n"));
    rc2 |= px->engine_step(true, false);
    if (rc2 != COLVARS_OK || cvm::get_error()) {
      std::string o = "{\"k\":\"setup_failed\",\"rc\":" + std::to_string(rc2) + ",\"ncv\":-1," + errs_json() + "}";
      puts(o.c_str());
      fflush(stdout);
      return 3;
    }
    size_t const first_new = subs.size();
    add("periodic", colvarvalue::type_scalar, M_S1, 1, "cv_dihed_w", "dihedral_wrapAround_modified", 360.0, dih_c2);
    add("periodic", colvarvalue::type_scalar, M_S1, 1, "cv_dz", "distanceZ_period_modified", dz_P2, dz_c2);
    for (size_t k = first_new; k < subs.size(); k++) {
      subject const &s = subs[k];
      describe(s);
      for (std::string const &cl : classes_of(s)) {
        for (int i = 0; i < ncases; i++) {
          run_pair(s, cl);
          npairs++;
        }
      }
    }
  }

  run_constraints(ncases);

  std::string o = "{\"k\":\"end\",\"pairs\":" + std::to_string(npairs) + ",\"calls\":" + std::to_string(n_calls) + "}";
  puts(o.c_str());
  fflush(stdout);
  delete px;   // deletes the module as well
  return 0;
}
