// h_memstream: typed round trip through cvm::memory_stream (property C11, part a).
//
//   h_memstream list                      one JSON line per (type, length) combination
//   h_memstream solo <seed> <type> <len>  one element alone in a fresh stream
//   h_memstream seq  <seed> <nseq>        every combination (+ random repeats) interleaved in a
//                                         seeded random order in ONE stream, then read back
//
// Values are random bit patterns (scalars, vectors) or random valid values of the type
// (colvarvalue: finite; unit types are made fixed points of apply_constraints() before writing, so
// that the re-normalisation done on reading cannot change them).  Reading is done into fresh
// objects from a read-mode memory_stream over exactly (output_buffer(), length()) of the writer.
// Requirements checked per element: the read leaves the stream good and the bytes of the value
// equal the bytes written; per stream: after the last element tellg() == length() and one more
// read fails (buffer exhausted exactly at the end).
//
// colvarvalue::type_notset is not part of the round trip: reading into it is an error by design.
#include <cstdint>
#include <cstdio>
#include <cstdlib>
#include <cstring>
#include <functional>
#include <memory>
#include <random>
#include <string>
#include <vector>

#include "colvarmodule.h"
#include "colvartypes.h"
#include "colvarvalue.h"
#include "colvars_memstream.h"

#include "verif_proxy.h"

namespace {

typedef std::mt19937_64 rng_t;

struct item {
  std::string type;
  size_t len = 0;        // 0 for fixed-size types
  size_t elemsize = 0;   // sizeof of the element type (vectors: of T)
  bool sized = false;    // has a length parameter
  std::function<void(cvm::memory_stream &)> write;
  /// read into a fresh object; return "" if bit-equal, otherwise a reason
  std::function<std::string(cvm::memory_stream &)> read;
};

template <typename T> void rand_bytes(rng_t &g, T &t)
{
  unsigned char b[sizeof(T)];
  for (size_t i = 0; i < sizeof(T); i++) b[i] = (unsigned char)(g() & 0xff);
  std::memcpy(&t, b, sizeof(T));
}

double rand_real(rng_t &g)
{
  // finite, sign and magnitude spread
  double const m = double(g() >> 11) * (1.0 / 9007199254740992.0);
  int const e = int(g() % 41) - 20;
  double v = std::ldexp(m + 0.5, e);
  return (g() & 1) ? -v : v;
}

template <typename T> item make_pod(char const *name, rng_t &g, bool is_bool = false)
{
  item it;
  it.type = name;
  it.elemsize = sizeof(T);
  auto v = std::make_shared<T>();
  if (is_bool) {
    bool const b = (g() & 1) != 0;
    std::memcpy(v.get(), &b, sizeof(T));
  } else {
    rand_bytes(g, *v);
  }
  it.write = [v](cvm::memory_stream &os) { os << *v; };
  it.read = [v](cvm::memory_stream &is) -> std::string {
    unsigned char raw[sizeof(T)];
    std::memset(raw, 0xA5, sizeof(T));
    T *t = reinterpret_cast<T *>(raw);
    // objects used here are trivially copyable: reading into raw storage is what read_object does
    is >> *t;
    if (!is) return "stream not good after read";
    if (std::memcmp(raw, v.get(), sizeof(T)) != 0) return "value differs";
    return "";
  };
  return it;
}

template <typename T> item make_vec(char const *name, size_t n, rng_t &g)
{
  item it;
  it.type = name;
  it.len = n;
  it.sized = true;
  it.elemsize = sizeof(T);
  auto v = std::make_shared<std::vector<T>>(n);
  for (size_t i = 0; i < n; i++) rand_bytes(g, (*v)[i]);
  it.write = [v](cvm::memory_stream &os) { os << *v; };
  it.read = [v](cvm::memory_stream &is) -> std::string {
    std::vector<T> t(3);   // fresh, with a different size
    is >> t;
    if (!is) return "stream not good after read";
    if (t.size() != v->size()) return "length differs: read " + std::to_string(t.size());
    if (t.size() && std::memcmp(t.data(), v->data(), t.size() * sizeof(T)) != 0) return "value differs";
    return "";
  };
  return it;
}

item make_string(size_t n, rng_t &g)
{
  item it;
  it.type = "string";
  it.len = n;
  it.sized = true;
  it.elemsize = 1;
  auto v = std::make_shared<std::string>(n, ' ');
  for (size_t i = 0; i < n; i++) (*v)[i] = char(g() & 0xff);   // includes NUL bytes
  it.write = [v](cvm::memory_stream &os) { os << *v; };
  it.read = [v](cvm::memory_stream &is) -> std::string {
    std::string t("xyz");
    is >> t;
    if (!is) return "stream not good after read";
    if (t.size() != v->size()) return "length differs: read " + std::to_string(t.size());
    if (t != *v) return "value differs";
    return "";
  };
  return it;
}

item make_vector1d(size_t n, rng_t &g)
{
  item it;
  it.type = "vector1d";
  it.len = n;
  it.sized = true;
  it.elemsize = sizeof(cvm::real);
  auto v = std::make_shared<cvm::vector1d<cvm::real>>(n);
  for (size_t i = 0; i < n; i++) rand_bytes(g, (*v)[i]);
  it.write = [v](cvm::memory_stream &os) { os << *v; };
  it.read = [v](cvm::memory_stream &is) -> std::string {
    cvm::vector1d<cvm::real> t(2);
    is >> t;
    if (!is) return "stream not good after read";
    if (t.size() != v->size()) return "length differs: read " + std::to_string(t.size());
    if (t.size() && std::memcmp(t.data_array().data(), v->data_array().data(),
                                t.size() * sizeof(cvm::real)) != 0) return "value differs";
    return "";
  };
  return it;
}

bool same_bits(colvarvalue const &a, colvarvalue const &b)
{
  if (a.type() != b.type()) return false;
  switch (a.type()) {
  case colvarvalue::type_scalar:
    return std::memcmp(&a.real_value, &b.real_value, sizeof(cvm::real)) == 0;
  case colvarvalue::type_3vector:
  case colvarvalue::type_unit3vector:
  case colvarvalue::type_unit3vectorderiv:
    return std::memcmp(&a.rvector_value, &b.rvector_value, sizeof(cvm::rvector)) == 0;
  case colvarvalue::type_quaternion:
  case colvarvalue::type_quaternionderiv:
    return std::memcmp(&a.quaternion_value, &b.quaternion_value, sizeof(cvm::quaternion)) == 0;
  case colvarvalue::type_vector:
    if (a.vector1d_value.size() != b.vector1d_value.size()) return false;
    return a.vector1d_value.size() == 0 ||
           std::memcmp(a.vector1d_value.data_array().data(), b.vector1d_value.data_array().data(),
                       a.vector1d_value.size() * sizeof(cvm::real)) == 0;
  default:
    return false;
  }
}

item make_cv(char const *name, colvarvalue::Type ty, size_t n, rng_t &g)
{
  item it;
  it.type = name;
  it.len = n;
  it.sized = (ty == colvarvalue::type_vector);
  auto v = std::make_shared<colvarvalue>(ty);
  switch (ty) {
  case colvarvalue::type_scalar:
    v->real_value = rand_real(g);
    it.elemsize = sizeof(cvm::real);
    break;
  case colvarvalue::type_3vector:
  case colvarvalue::type_unit3vector:
  case colvarvalue::type_unit3vectorderiv:
    v->rvector_value = cvm::rvector(rand_real(g), rand_real(g), rand_real(g));
    it.elemsize = sizeof(cvm::rvector);
    break;
  case colvarvalue::type_quaternion:
  case colvarvalue::type_quaternionderiv:
    v->quaternion_value = cvm::quaternion(rand_real(g), rand_real(g), rand_real(g), rand_real(g));
    it.elemsize = sizeof(cvm::quaternion);
    break;
  case colvarvalue::type_vector: {
    cvm::vector1d<cvm::real> d(n);
    for (size_t i = 0; i < n; i++) d[i] = rand_real(g);
    *v = colvarvalue(d, colvarvalue::type_vector);
    it.elemsize = sizeof(cvm::real);
    break;
  }
  default:
    break;
  }
  if (ty == colvarvalue::type_unit3vector || ty == colvarvalue::type_quaternion) {
    // a value of a unit type is a fixed point of the constraint: iterate until it is one
    bool fixed = false;
    for (int k = 0; k < 8 && !fixed; k++) {
      colvarvalue before(*v);
      v->apply_constraints();
      fixed = same_bits(before, *v);
    }
    if (!fixed) {
      if (ty == colvarvalue::type_unit3vector) v->rvector_value = cvm::rvector(0.0, 1.0, 0.0);
      else v->quaternion_value = cvm::quaternion(0.0, 0.0, 1.0, 0.0);
    }
  }
  it.write = [v](cvm::memory_stream &os) { os << *v; };
  it.read = [v, ty, n](cvm::memory_stream &is) -> std::string {
    colvarvalue t(ty);
    (void)n;
    is >> t;
    if (!is) return "stream not good after read";
    if (!same_bits(t, *v)) return "value differs";
    return "";
  };
  return it;
}

size_t const LENS[4] = {0, 1, 7, 1000};

struct combo {
  std::string type;
  bool sized;
};

std::vector<combo> const &combos()
{
  static std::vector<combo> const c = {
      {"bool", false},          {"char", false},           {"int", false},
      {"unsigned", false},      {"size_t", false},         {"longlong", false},
      {"float", false},         {"double", false},         {"rvector", false},
      {"quaternion", false},    {"string", true},          {"cv_scalar", false},
      {"cv_3vector", false},    {"cv_unit3vector", false}, {"cv_unit3vectorderiv", false},
      {"cv_quaternion", false}, {"cv_quaternionderiv", false}, {"cv_vector", true},
      {"vector1d", true},       {"vec_char", true},        {"vec_uchar", true},
      {"vec_int", true},        {"vec_float", true},       {"vec_double", true},
      {"vec_size_t", true},     {"vec_rvector", true}};
  return c;
}

bool make_item(std::string const &t, size_t n, rng_t &g, item &out)
{
  if (t == "bool") out = make_pod<bool>("bool", g, true);
  else if (t == "char") out = make_pod<char>("char", g);
  else if (t == "int") out = make_pod<int>("int", g);
  else if (t == "unsigned") out = make_pod<unsigned>("unsigned", g);
  else if (t == "size_t") out = make_pod<size_t>("size_t", g);
  else if (t == "longlong") out = make_pod<long long>("longlong", g);
  else if (t == "float") out = make_pod<float>("float", g);
  else if (t == "double") out = make_pod<double>("double", g);
  else if (t == "rvector") out = make_pod<cvm::rvector>("rvector", g);
  else if (t == "quaternion") out = make_pod<cvm::quaternion>("quaternion", g);
  else if (t == "string") out = make_string(n, g);
  else if (t == "cv_scalar") out = make_cv("cv_scalar", colvarvalue::type_scalar, 0, g);
  else if (t == "cv_3vector") out = make_cv("cv_3vector", colvarvalue::type_3vector, 0, g);
  else if (t == "cv_unit3vector") out = make_cv("cv_unit3vector", colvarvalue::type_unit3vector, 0, g);
  else if (t == "cv_unit3vectorderiv")
    out = make_cv("cv_unit3vectorderiv", colvarvalue::type_unit3vectorderiv, 0, g);
  else if (t == "cv_quaternion") out = make_cv("cv_quaternion", colvarvalue::type_quaternion, 0, g);
  else if (t == "cv_quaternionderiv")
    out = make_cv("cv_quaternionderiv", colvarvalue::type_quaternionderiv, 0, g);
  else if (t == "cv_vector") out = make_cv("cv_vector", colvarvalue::type_vector, n, g);
  else if (t == "vector1d") out = make_vector1d(n, g);
  else if (t == "vec_char") out = make_vec<char>("vec_char", n, g);
  else if (t == "vec_uchar") out = make_vec<unsigned char>("vec_uchar", n, g);
  else if (t == "vec_int") out = make_vec<int>("vec_int", n, g);
  else if (t == "vec_float") out = make_vec<float>("vec_float", n, g);
  else if (t == "vec_double") out = make_vec<double>("vec_double", n, g);
  else if (t == "vec_size_t") out = make_vec<size_t>("vec_size_t", n, g);
  else if (t == "vec_rvector") out = make_vec<cvm::rvector>("vec_rvector", n, g);
  else return false;
  return true;
}

std::string jesc(std::string const &s)
{
  std::string r = "\"";
  for (char c : s) {
    if (c == '"' || c == '\\') {
      r.push_back('\\');
      r.push_back(c);
    } else if ((unsigned char)c < 0x20) {
      r.push_back(' ');
    } else {
      r.push_back(c);
    }
  }
  return r + "\"";
}

/// write all items into one stream, read them back; returns the JSON description
std::string round_trip(std::vector<item> &items, char const *ev, long idx)
{
  cvm::memory_stream os;
  bool write_good = true;
  for (auto &it : items) {
    it.write(os);
    if (!os) write_good = false;
  }
  size_t const written = os.length();
  cvm::memory_stream is(written, os.output_buffer());
  std::string s = std::string("{\"ev\":\"") + ev + "\",\"i\":" + std::to_string(idx) +
                  ",\"n\":" + std::to_string(items.size()) + ",\"written\":" + std::to_string(written) +
                  ",\"write_good\":" + (write_good ? "true" : "false") + ",\"elems\":[";
  bool all_ok = true, stopped = false;
  size_t pos = 0;
  for (auto &it : items) {
    std::string why;
    if (stopped) {
      why = "skipped";
    } else {
      try {
        why = it.read(is);
      } catch (std::exception const &e) {
        why = std::string("exception: ") + e.what();
        stopped = true;
      } catch (...) {
        why = "exception: unknown";
        stopped = true;
      }
    }
    if (why.size()) all_ok = false;
    if (pos) s += ",";
    s += "{\"t\":" + jesc(it.type) + ",\"l\":" + (it.sized ? std::to_string(it.len) : std::string("null")) +
         ",\"es\":" + std::to_string(it.elemsize) + ",\"p\":" + std::to_string(pos) + ",\"ok\":" +
         (why.empty() ? "true" : "false") + (why.empty() ? "" : ",\"why\":" + jesc(why)) + "}";
    pos++;
  }
  bool const stream_good = bool(is);
  bool const at_end = (is.tellg() == written);
  // one more read must fail: the buffer is exhausted
  bool extra_fails = true;
  if (!stopped) {
    char extra = 0;
    is >> extra;
    extra_fails = !is;
  }
  s += "],\"all_ok\":" + std::string(all_ok ? "true" : "false") + ",\"stream_good\":" +
       (stream_good ? "true" : "false") + ",\"read_pos\":" + std::to_string(is.tellg()) +
       ",\"exhausted\":" + ((at_end && extra_fails) ? "true" : "false") + "}";
  return s;
}

} // namespace


int main(int argc, char **argv)
{
  if (argc < 2) {
    fprintf(stderr, "usage: h_memstream list | solo <seed> <type> <len> | seq <seed> <nseq>\n");
    return 2;
  }
  std::string const mode = argv[1];

  if (mode == "list") {
    for (auto const &c : combos()) {
      if (c.sized) {
        for (size_t n : LENS) printf("{\"type\":\"%s\",\"len\":%zu}\n", c.type.c_str(), n);
      } else {
        printf("{\"type\":\"%s\",\"len\":null}\n", c.type.c_str());
      }
    }
    return 0;
  }

  // a module is needed because colvarvalue reports through cvm::error()/cvm::log()
  verif_proxy *px = new verif_proxy(0);
  px->colvars = new colvarmodule(px);

  int rc = 0;
  if (mode == "solo" && argc >= 5) {
    rng_t g(strtoull(argv[2], 0, 10) * 7919u + 17u);
    item it;
    if (!make_item(argv[3], size_t(strtoull(argv[4], 0, 10)), g, it)) {
      fprintf(stderr, "h_memstream: unknown type %s\n", argv[3]);
      return 2;
    }
    std::vector<item> v(1, it);
    puts(round_trip(v, "solo", 0).c_str());
  } else if (mode == "seq" && argc >= 4) {
    uint64_t const seed = strtoull(argv[2], 0, 10);
    long const nseq = atol(argv[3]);
    for (long s = 0; s < nseq; s++) {
      rng_t g(seed * 1000003u + uint64_t(s) * 97u + 5u);
      std::vector<item> items;
      // every combination once ...
      for (auto const &c : combos()) {
        if (c.sized) {
          for (size_t n : LENS) {
            item it;
            make_item(c.type, n, g, it);
            items.push_back(it);
          }
        } else {
          item it;
          make_item(c.type, 0, g, it);
          items.push_back(it);
        }
      }
      // ... plus random repeats (short lengths preferred so that neighbours vary)
      size_t const extra = 40 + size_t(g() % 40);
      for (size_t k = 0; k < extra; k++) {
        combo const &c = combos()[g() % combos().size()];
        item it;
        make_item(c.type, LENS[g() % 3], g, it);
        items.push_back(it);
      }
      std::shuffle(items.begin(), items.end(), g);
      puts(round_trip(items, "seq", s).c_str());
      fflush(stdout);
    }
  } else {
    fprintf(stderr, "h_memstream: bad arguments\n");
    rc = 2;
  }
  fflush(stdout);
  delete px;
  return rc;
}
