// h_grids: in-process harness for the grid-file round-trip half of property C15
// ("A grid written in multicolumn, restart or raw form and read back has the same sizes, boundaries,
//  periodicity flags and data").
//
//   h_grids <case file>
//
// The case file is a whitespace-separated script written by monitors/c15_grids.py; numbers are parsed
// with strtod / strtoull (repr() round-trips exactly).  The harness is thin: per case it defines 1-3
// scalar colvars by configuration (distanceZ, with or without `period`), builds a grid of the requested
// kind the way the biases do, stores the data it is given with set_value(ix, v, imult), and for every
// requested format lets the *library* write the grid and read it back into a FRESH grid object.  It
// prints the geometry and the raw arrays of the original and of every read-back grid as JSON lines
// (%.17g / integers), together with the stream state, return codes, the library's error bits and the
// number of unread non-blank characters / bytes.  All deciding is done in Python.
//
// Commands:
//   case <name>
//   nd <n>
//   cv <lower> <upper> <width> <period|0> <wrapAround> <hardLower 0|1> <hardUpper 0|1>      (n times)
//   custom 0 | custom 1 then n x "<lower> <upper> <width>"     grid configuration block overriding the
//                                                              variables' own boundaries and widths
//   kind count|scalar|gradient|gradient_c          gradient_c: gradient grid with an attached count grid
//   fmt sci|gen <values per line>                  text stream set up as colvarbias::write_state does
//                                                  (scientific, precision 14) or as ABF / histogram do
//                                                  before write_raw (default float format, precision 14)
//   data <n> v...                                  main grid, row-major over (i0,..,i_nd-1, imult);
//                                                  unsigned integers for kind count
//   counts <n> c...                                attached count grid (gradient_c)
//   formats f1,f2,...                              of: raw_text raw_bin restart_text restart_bin
//                                                  multicol_stream multicol_file multicol_ctor
//                                                  multicol_add opendx restart_default
//   run                                            do it, print events
//
// Fresh target grids: raw_*, multicol_stream, multicol_file, multicol_add -> same colvars and same
// custom block (these readers only fill data); restart_* -> same colvars WITHOUT the custom block (the
// reader carries its own parameters); multicol_ctor -> constructed from the file alone;
// restart_default -> default-constructed object (probe, see the Python side).
#include <cmath>
#include <cstdio>
#include <cstdlib>
#include <cstring>
#include <fstream>
#include <iomanip>
#include <iostream>
#include <memory>
#include <sstream>
#include <string>
#include <vector>

#include "colvarmodule.h"
#include "colvar.h"
#include "colvargrid.h"
#include "colvarproxy.h"
#include "colvars_memstream.h"

#include "verif_proxy.h"

namespace {

std::vector<std::string> tok;
size_t tp = 0;

bool have() { return tp < tok.size(); }
std::string const &next()
{
  if (tp >= tok.size()) {
    fprintf(stderr, "h_grids: unexpected end of case file\n");
    exit(2);
  }
  return tok[tp++];
}
double nextd()
{
  std::string const &s = next();
  char *e = nullptr;
  double const v = strtod(s.c_str(), &e);
  if (e == s.c_str() || *e) {
    fprintf(stderr, "h_grids: bad number '%s'\n", s.c_str());
    exit(2);
  }
  return v;
}
unsigned long long nextu()
{
  std::string const &s = next();
  char *e = nullptr;
  unsigned long long const v = strtoull(s.c_str(), &e, 10);
  if (e == s.c_str() || *e) {
    fprintf(stderr, "h_grids: bad integer '%s'\n", s.c_str());
    exit(2);
  }
  return v;
}
long nexti() { return long(nextd()); }

std::string jd(std::vector<double> const &v)
{
  std::string s = "[";
  s.reserve(v.size() * 24 + 2);
  for (size_t i = 0; i < v.size(); i++) {
    if (i) s += ",";
    s += vjson::num(v[i]);
  }
  return s + "]";
}
std::string ju(std::vector<size_t> const &v)
{
  std::string s = "[";
  s.reserve(v.size() * 8 + 2);
  char b[32];
  for (size_t i = 0; i < v.size(); i++) {
    if (i) s += ",";
    snprintf(b, sizeof(b), "%zu", v[i]);
    s += b;
  }
  return s + "]";
}
template <class V> std::string ji(V const &v)
{
  std::string s = "[";
  for (size_t i = 0; i < v.size(); i++) {
    if (i) s += ",";
    s += std::to_string(long(v[i]));
  }
  return s + "]";
}

std::string state_str(std::ios::iostate s)
{
  if (s == std::ios::goodbit) return "good";
  std::string o;
  if (s & std::ios::failbit) o += "fail|";
  if (s & std::ios::badbit) o += "bad|";
  if (s & std::ios::eofbit) o += "eof|";
  if (o.size()) o.pop_back();
  return o;
}

struct dimspec {
  double lower, upper, width, period, wrap;
  bool hardl, hardu;
  double cl, cu, cw;   // custom block
};

struct gridset {
  std::shared_ptr<colvar_grid_count> cnt;
  std::shared_ptr<colvar_grid_scalar> sc;
  std::shared_ptr<colvar_grid_gradient> gr;
};

// outcome of one write + read of one grid object
struct xres {
  bool done = false;
  int wrc = 0, rrc = 0;          // return codes of file-name variants (0 when not applicable)
  std::string state = "n/a";     // stream state after reading
  long rest = -1;                // unread non-blank characters / bytes (-1: not applicable)
  std::string file;              // what the library wrote (relative to the working directory)
  std::string json() const
  {
    return "{\"done\":" + std::string(done ? "1" : "0") + ",\"wrc\":" + std::to_string(wrc) + ",\"rrc\":" +
           std::to_string(rrc) + ",\"state\":" + vjson::esc(state) + ",\"rest\":" + std::to_string(rest) +
           ",\"file\":" + vjson::esc(file) + "}";
  }
};

template <class G> std::string geom_json(G const &g)
{
  std::vector<double> lo, up;
  for (size_t i = 0; i < g.lower_boundaries.size(); i++) lo.push_back(g.lower_boundaries[i].real_value);
  for (size_t i = 0; i < g.upper_boundaries.size(); i++) up.push_back(g.upper_boundaries[i].real_value);
  std::vector<int> per, hl, hu;
  for (size_t i = 0; i < g.periodic.size(); i++) per.push_back(g.periodic[i] ? 1 : 0);
  for (size_t i = 0; i < g.hard_lower_boundaries.size(); i++) hl.push_back(g.hard_lower_boundaries[i] ? 1 : 0);
  for (size_t i = 0; i < g.hard_upper_boundaries.size(); i++) hu.push_back(g.hard_upper_boundaries[i] ? 1 : 0);
  return "{\"nd\":" + std::to_string(g.nd) + ",\"nx\":" + ji(g.nx) + ",\"nxc\":" + ji(g.nxc) + ",\"nt\":" +
         std::to_string(g.nt) + ",\"mult\":" + std::to_string(g.mult) + ",\"lower\":" + jd(lo) + ",\"upper\":" +
         jd(up) + ",\"widths\":" + jd(g.widths) + ",\"periodic\":" + ji(per) + ",\"hardl\":" + ji(hl) +
         ",\"hardu\":" + ji(hu) + "}";
}

std::string data_json(colvar_grid_count const &g)
{
  std::vector<size_t> d;
  g.raw_data_out(d);
  return ju(d);
}
template <class G> std::string data_json(G const &g)
{
  std::vector<cvm::real> d;
  g.raw_data_out(d);
  return jd(d);
}

void save_text(std::string const &path, std::string const &s)
{
  std::ofstream f(path.c_str(), std::ios::binary);
  f.write(s.data(), std::streamsize(s.size()));
}

long count_rest(std::istream &is)
{
  is.clear();
  long n = 0;
  int ch;
  while ((ch = is.get()) != EOF) {
    if (!isspace(ch)) n++;
  }
  return n;
}

struct ctx {
  std::string name, kind, fmtvar = "sci";
  size_t bufsize = 3, cvat = 0;
  std::vector<dimspec> dims;
  bool custom = false;
  std::vector<double> vals;
  std::vector<size_t> ivals, cvals;
  std::vector<std::string> formats;
  verif_proxy *px = nullptr;
  std::vector<colvar *> cvs;

  void emit(std::string const &body)
  {
    std::string s = "{\"case\":" + vjson::esc(name) + "," + body;
    if (px && px->err_lines.size()) {
      s += ",\"errs\":[";
      for (size_t i = 0; i < px->err_lines.size() && i < 4; i++) {
        if (i) s += ",";
        s += vjson::esc(px->err_lines[i].substr(0, 300));
      }
      s += "]";
      px->err_lines.clear();
    }
    s += ",\"err\":" + std::to_string(px ? cvm::get_error() : 0) + "}";
    puts(s.c_str());
    if (px) cvm::clear_error();
  }

  void destroy()
  {
    cvs.clear();
    if (px) {
      delete px;   // ~colvarproxy deletes the module
      px = nullptr;
    }
  }

  std::string colvar_config() const
  {
    static char const *axes[3] = {"(1.0, 0.0, 0.0)", "(0.0, 1.0, 0.0)", "(0.0, 0.0, 1.0)"};
    std::string conf;
    size_t const nd = dims.size();
    for (size_t d = 0; d < nd; d++) {
      dimspec const &D = dims[d];
      std::ostringstream os;
      os.precision(17);
      os << "colvar {\n  name c" << d << "\n  width " << D.width << "\n  lowerBoundary " << D.lower
         << "\n  upperBoundary " << D.upper << "\n";
      if (D.hardl) os << "  hardLowerBoundary on\n";
      if (D.hardu) os << "  hardUpperBoundary on\n";
      os << "  distanceZ {\n    main { atomNumbers 1 }\n    ref { atomNumbers " << (nd + 1) << " }\n    axis "
         << axes[d] << "\n";
      if (D.period > 0.0) os << "    period " << D.period << "\n    wrapAround " << D.wrap << "\n";
      os << "  }\n}\n";
      conf += os.str();
    }
    return conf;
  }

  std::string custom_config() const
  {
    if (!custom) return std::string();
    std::ostringstream lo, up, wi;
    lo.precision(17);
    up.precision(17);
    wi.precision(17);
    for (size_t d = 0; d < dims.size(); d++) {
      lo << " " << dims[d].cl;
      up << " " << dims[d].cu;
      wi << " " << dims[d].cw;
    }
    return "lowerBoundary" + lo.str() + "\nupperBoundary" + up.str() + "\nwidth" + wi.str() + "\n";
  }

  bool make_module()
  {
    px = new verif_proxy(int(dims.size()) + 1);
    for (auto &a : px->eng) a.mass = 1.0;
    px->colvars = new colvarmodule(px);
    px->colvars->cv_traj_freq = 0;
    px->colvars->restart_out_freq = 0;
    int const rc = px->colvars->read_config_string(colvar_config());
    cvs.clear();
    for (size_t d = 0; d < dims.size(); d++) {
      colvar *c = cvm::colvar_by_name("c" + std::to_string(d));
      if (!c) return false;
      cvs.push_back(c);
    }
    return rc == COLVARS_OK && cvm::get_error() == COLVARS_OK;
  }

  // grids built the way the biases build them
  gridset make(bool with_custom)
  {
    gridset s;
    std::string const conf = with_custom ? custom_config() : std::string();
    if (kind == "count" || kind == "gradient_c") {
      s.cnt.reset(new colvar_grid_count(cvs, conf));
    }
    if (kind == "scalar") {
      s.sc.reset(new colvar_grid_scalar(cvs, nullptr, false, conf));
    } else if (kind == "gradient") {
      s.gr.reset(new colvar_grid_gradient(cvs, nullptr, nullptr, conf));
    } else if (kind == "gradient_c") {
      // as colvarbias_abf: the count grid is attached; it also serves as the template for the geometry
      s.gr.reset(new colvar_grid_gradient(cvs, s.cnt, s.cnt));
    }
    return s;
  }

  template <class G, class V> bool fill(G &g, std::vector<V> const &v)
  {
    std::vector<int> const nx = g.number_of_points_vec();
    size_t nb = 1;
    for (size_t d = 0; d < nx.size(); d++) nb *= size_t(nx[d]);
    size_t const mult = g.multiplicity();
    if (v.size() != nb * mult) return false;
    std::vector<int> ix(nx.size(), 0);
    size_t k = 0;
    for (size_t b = 0; b < nb; b++) {
      size_t r = b;
      for (int d = int(nx.size()) - 1; d >= 0; d--) {
        ix[size_t(d)] = int(r % size_t(nx[size_t(d)]));
        r /= size_t(nx[size_t(d)]);
      }
      for (size_t im = 0; im < mult; im++) g.set_value(ix, v[k++], im);
    }
    return true;
  }

  void setfmt(std::ostream &os) const
  {
    if (fmtvar == "sci") {
      os.setf(std::ios::scientific, std::ios::floatfield);   // colvarbias::write_state
    } else {
      os.setf(std::ios::fmtflags(0), std::ios::floatfield);  // colvarbias_abf / histogram ::write_state_data
    }
    os.precision(cvm::cv_prec);
  }

  // one grid object: the library writes src, the library reads into dst
  template <class G> xres xfer(std::string const &fmt, G &src, G &dst, std::string const &tag)
  {
    xres r;
    std::string const base = name + "." + fmt + "." + tag;
    if (fmt == "raw_text" || fmt == "restart_text" || fmt == "multicol_stream") {
      std::ostringstream os;
      if (fmt != "multicol_stream") setfmt(os);
      if (fmt == "raw_text") src.write_raw(os, bufsize);
      else if (fmt == "restart_text") src.write_restart(os);
      else src.write_multicol(os);
      r.file = base + ".txt";
      save_text(r.file, os.str());
      std::istringstream is(os.str());
      if (fmt == "raw_text") dst.read_raw(is);
      else if (fmt == "restart_text") dst.read_restart(is);
      else dst.read_multicol(is, false);
      r.state = state_str(is.rdstate());
      r.rest = count_rest(is);
      r.done = true;
    } else if (fmt == "raw_bin" || fmt == "restart_bin") {
      cvm::memory_stream os;
      if (fmt == "raw_bin") src.write_raw(os);
      else src.write_restart(os);
      cvm::memory_stream is(os.length(), os.output_buffer());
      if (fmt == "raw_bin") dst.read_raw(is);
      else dst.read_restart(is);
      r.state = state_str(is.rdstate());
      r.rest = long(os.length()) - long(is.tellg());
      r.done = true;
    } else if (fmt == "multicol_file") {
      r.file = base + ".dat";
      r.wrc = src.write_multicol(r.file, "grid file");
      r.rrc = dst.read_multicol(r.file, "grid file", false);
      r.done = true;
    }
    return r;
  }

  template <class G> std::string grid_json(G const &g) { return "\"geom\":" + geom_json(g) + ",\"data\":" + data_json(g); }

  std::string set_json(gridset const &s)
  {
    std::string o;
    if (kind == "count") o = grid_json(*s.cnt);
    else if (kind == "scalar") o = grid_json(*s.sc);
    else o = grid_json(*s.gr);
    if (kind == "gradient_c") {
      o += ",\"cgeom\":" + geom_json(*s.cnt) + ",\"counts\":" + data_json(*s.cnt);
    }
    return o;
  }

  void run()
  {
    if (!make_module()) {
      emit("\"ev\":\"fail\",\"what\":\"colvar configuration\"");
      return;
    }
    gridset O = make(true);
    bool ok = true;
    if (kind == "count") ok = fill(*O.cnt, ivals);
    else if (kind == "scalar") ok = fill(*O.sc, vals);
    else ok = fill(*O.gr, vals);
    if (ok && kind == "gradient_c") ok = fill(*O.cnt, cvals);
    if (!ok) {
      emit("\"ev\":\"fail\",\"what\":\"data size does not match the grid the library built\"," + set_json(O));
      return;
    }
    emit("\"ev\":\"orig\"," + set_json(O));

    for (std::string const &fmt : formats) {
      if (fmt == "opendx") {
        // write only
        xres r;
        r.file = name + ".opendx.dx";
        if (kind == "count") r.wrc = O.cnt->write_opendx(r.file, "grid file");
        else if (kind == "scalar") r.wrc = O.sc->write_opendx(r.file, "grid file");
        else r.wrc = O.gr->write_opendx(r.file, "grid file");
        r.done = true;
        emit("\"ev\":\"wr\",\"fmt\":\"opendx\",\"x\":" + r.json());
        continue;
      }
      if (fmt == "multicol_ctor") {
        if (kind != "scalar" && kind != "gradient") continue;
        xres r;
        r.file = name + ".multicol_ctor.m.dat";
        std::string body;
        if (kind == "scalar") {
          r.wrc = O.sc->write_multicol(r.file, "grid file");
          colvar_grid_scalar R(r.file);
          r.done = true;
          body = grid_json(R);
        } else {
          r.wrc = O.gr->write_multicol(r.file, "grid file");
          colvar_grid_gradient R(r.file);
          r.done = true;
          body = grid_json(R);
        }
        emit("\"ev\":\"rt\",\"fmt\":\"multicol_ctor\",\"x\":" + r.json() + "," + body);
        continue;
      }
      if (fmt == "restart_default") {
        // probe: a default-constructed object (no variables) offered a text restart block
        xres r;
        std::ostringstream os;
        setfmt(os);
        std::string body;
        if (kind == "count") {
          O.cnt->write_restart(os);
          std::istringstream is(os.str());
          colvar_grid_count R;
          R.read_restart(is);
          r.state = state_str(is.rdstate());
          body = grid_json(R);
        } else if (kind == "scalar") {
          O.sc->write_restart(os);
          std::istringstream is(os.str());
          colvar_grid_scalar R;
          R.read_restart(is);
          r.state = state_str(is.rdstate());
          body = grid_json(R);
        } else if (kind == "gradient") {
          O.gr->write_restart(os);
          std::istringstream is(os.str());
          colvar_grid_gradient R;
          R.read_restart(is);
          r.state = state_str(is.rdstate());
          body = grid_json(R);
        } else {
          continue;
        }
        r.done = true;
        emit("\"ev\":\"rt\",\"fmt\":\"restart_default\",\"x\":" + r.json() + "," + body);
        continue;
      }
      if (fmt == "multicol_add") {
        // ABF's inputPrefix: the same files read twice with add = true into empty grids, the count file
        // before the gradient file each time
        gridset R = make(true);
        xres r, rc;
        r.file = name + ".multicol_add.m.dat";
        rc.file = name + ".multicol_add.c.dat";
        if (kind == "count") r.wrc = O.cnt->write_multicol(r.file, "grid file");
        else if (kind == "scalar") r.wrc = O.sc->write_multicol(r.file, "grid file");
        else r.wrc = O.gr->write_multicol(r.file, "grid file");
        if (kind == "gradient_c") rc.wrc = O.cnt->write_multicol(rc.file, "grid file");
        for (int pass = 0; pass < 2; pass++) {
          if (kind == "count") r.rrc |= R.cnt->read_multicol(r.file, "grid file", true);
          else if (kind == "scalar") r.rrc |= R.sc->read_multicol(r.file, "grid file", true);
          else {
            if (kind == "gradient_c") rc.rrc |= R.cnt->read_multicol(rc.file, "grid file", true);
            r.rrc |= R.gr->read_multicol(r.file, "grid file", true);
          }
        }
        r.done = rc.done = true;
        emit("\"ev\":\"rt\",\"fmt\":\"multicol_add\",\"x\":" + r.json() + ",\"xc\":" + rc.json() + "," + set_json(R));
        continue;
      }
      bool const carries_params = (fmt == "restart_text" || fmt == "restart_bin");
      gridset R = make(!carries_params);
      xres r, rc;
      if (kind == "count") r = xfer(fmt, *O.cnt, *R.cnt, "m");
      else if (kind == "scalar") r = xfer(fmt, *O.sc, *R.sc, "m");
      else {
        if (kind == "gradient_c") rc = xfer(fmt, *O.cnt, *R.cnt, "c");   // counts first, as the biases do
        r = xfer(fmt, *O.gr, *R.gr, "m");
      }
      if (!r.done) {
        fprintf(stderr, "h_grids: unknown format '%s'\n", fmt.c_str());
        exit(2);
      }
      emit("\"ev\":\"rt\",\"fmt\":" + vjson::esc(fmt) + ",\"x\":" + r.json() + ",\"xc\":" + rc.json() + "," + set_json(R));
    }
    emit("\"ev\":\"end\"");
  }
};


int run_file(char const *path)
{
  std::ifstream in(path);
  if (!in) {
    fprintf(stderr, "h_grids: cannot open %s\n", path);
    return 2;
  }
  {
    std::string w;
    while (in >> w) tok.push_back(w);
  }
  ctx C;
  while (have()) {
    std::string const c = next();
    if (c == "case") {
      C.destroy();
      C = ctx();
      C.name = next();
    } else if (c == "nd") {
      C.dims.assign(size_t(nexti()), dimspec());
    } else if (c == "cv") {
      if (C.cvat >= C.dims.size()) {
        fprintf(stderr, "h_grids: more cv lines than dimensions\n");
        return 2;
      }
      dimspec &D = C.dims[C.cvat++];
      D.lower = nextd();
      D.upper = nextd();
      D.width = nextd();
      D.period = nextd();
      D.wrap = nextd();
      D.hardl = nexti() != 0;
      D.hardu = nexti() != 0;
      D.cl = D.lower;
      D.cu = D.upper;
      D.cw = D.width;
    } else if (c == "custom") {
      C.custom = nexti() != 0;
      if (C.custom) {
        for (size_t d = 0; d < C.dims.size(); d++) {
          C.dims[d].cl = nextd();
          C.dims[d].cu = nextd();
          C.dims[d].cw = nextd();
        }
      }
    } else if (c == "kind") {
      C.kind = next();
    } else if (c == "fmt") {
      C.fmtvar = next();
      C.bufsize = size_t(nexti());
      if (C.bufsize < 1) C.bufsize = 1;
    } else if (c == "data") {
      size_t const n = size_t(nexti());
      if (C.kind == "count") {
        C.ivals.resize(n);
        for (size_t i = 0; i < n; i++) C.ivals[i] = size_t(nextu());
      } else {
        C.vals.resize(n);
        for (size_t i = 0; i < n; i++) C.vals[i] = nextd();
      }
    } else if (c == "counts") {
      size_t const n = size_t(nexti());
      C.cvals.resize(n);
      for (size_t i = 0; i < n; i++) C.cvals[i] = size_t(nextu());
    } else if (c == "formats") {
      std::string const l = next();
      C.formats.clear();
      std::stringstream ss(l);
      std::string f;
      while (std::getline(ss, f, ',')) {
        if (f.size()) C.formats.push_back(f);
      }
    } else if (c == "run") {
      if (C.kind != "count" && C.kind != "scalar" && C.kind != "gradient" && C.kind != "gradient_c") {
        fprintf(stderr, "h_grids: unknown kind '%s'\n", C.kind.c_str());
        return 2;
      }
      C.run();
      C.destroy();
    } else {
      fprintf(stderr, "h_grids: unknown command '%s'\n", c.c_str());
      return 2;
    }
  }
  C.destroy();
  puts("{\"ev\":\"done\"}");
  return 0;
}

} // namespace


int main(int argc, char **argv)
{
  if (argc < 2) {
    fprintf(stderr, "usage: h_grids <case file>\n");
    return 2;
  }
  int rc = 0;
  try {
    rc = run_file(argv[1]);
  } catch (std::exception const &e) {
    printf("{\"ev\":\"exception\",\"what\":%s}\n", vjson::esc(e.what()).c_str());
    rc = 3;
  }
  fflush(stdout);
  return rc;
}
