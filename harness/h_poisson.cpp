// h_poisson: in-process harness for property C16 (PMF integration; incremental == batch divergence).
//
//   h_poisson <case file>
//
// The case file is a whitespace-separated command script written by monitors/c16.py; every number is
// parsed with strtod (repr()/hex floats round-trip exactly).  The harness is deliberately thin: it
// builds the grids the way colvarbias_abf does (colvars defined by configuration, colvar_grid_count,
// colvar_grid_gradient(colvars, samples), integrate_potential(colvars, gradients)), applies the
// requested operations of the *library* and prints the raw arrays as JSON lines (%.17g).  All
// deciding is done by the Python side with independent numpy code.
//
// Commands (one case = fresh proxy + module):
//   case <name>
//   grid <nd>  then nd x "<lower> <width> <nbins> <periodic 0|1>"
//   params <smoothed 0|1> <full_samples> <min_samples> <use_counts 0|1>
//   build                         define colvars, allocate grids
//   load <n>   then n x "<i0..> <count> <g0..>"     set count and gradient *sum* of a bin directly
//   loadbin <file>                binary form of load for big grids: nb int64 counts, then nb*nd doubles
//                                 (gradient sums), both in the grid's memory order
//   acc <n>    then n x "<i0..> <f0..>"             acc_force(bin, f); update_div_neighbors(bin)  (ABF order)
//   accnodiv <n> ...                                acc_force only
//   setdiv                        pmf->set_div()
//   div <tag> | grad <tag>        dump divergence / gradient sums + counts
//   zero                          reset the PMF data to 0 (initial guess of the solver)
//   integrate <itmax> <tol> <tag> pmf->integrate(); dump iterations, err, data
//   atimes <tag>                  dump L.data with the library's own operator (protected, via subclass)
//   minzero                       pmf->set_zero_minimum()
//   pmf <tag>                     dump PMF data
//   multicol <tag>                text written by pmf->write_multicol()
//   ti1d <tag>                    text written by gradients->write_1D_integral()
//   e2e <fullSamples> <tfmode same|prev> <nsteps>  then nsteps x "<x0..> <f0..>"
//                                 real ABF bias (integrate on) stepped by the engine simulator; dumps the
//                                 bias's gradients/counts, its incrementally kept divergence, and the
//                                 divergence set_div() gives on a copy of the final gradients
//   end
#include <cmath>
#include <cstdio>
#include <cstdlib>
#include <cstring>
#include <fstream>
#include <iostream>
#include <memory>
#include <sstream>
#include <string>
#include <vector>

#include "colvarmodule.h"
#include "colvar.h"
#include "colvarbias.h"
#include "colvarbias_abf.h"
#include "colvargrid.h"
#include "colvarproxy.h"

#include "verif_proxy.h"
#include "verif_access.h"

namespace {

struct ip_open : public integrate_potential {
  ip_open(std::vector<colvar *> &cvs, std::shared_ptr<colvar_grid_gradient> g) : integrate_potential(cvs, g) {}
  void apply_L(std::vector<cvm::real> const &a, std::vector<cvm::real> &la) { atimes(a, la); }
};

struct dimspec {
  double lower, width;
  int n;
  bool periodic;
};

std::vector<std::string> tok;
size_t tp = 0;

bool have() { return tp < tok.size(); }
std::string const &next()
{
  if (tp >= tok.size()) {
    fprintf(stderr, "h_poisson: unexpected end of case file\n");
    exit(2);
  }
  return tok[tp++];
}
double nextd()
{
  std::string const &s = next();
  char *e = nullptr;
  double const v = strtod(s.c_str(), &e);
  if (e == s.c_str() || *e) {
    fprintf(stderr, "h_poisson: bad number '%s'\n", s.c_str());
    exit(2);
  }
  return v;
}
long nexti() { return long(nextd()); }

std::string jnum(double x) { return vjson::num(x); }

template <class V> std::string jarr(V const &v)
{
  std::string s = "[";
  s.reserve(v.size() * 24 + 2);
  for (size_t i = 0; i < v.size(); i++) {
    if (i) s += ",";
    s += jnum(double(v[i]));
  }
  return s + "]";
}

std::string jints(std::vector<int> const &v)
{
  std::string s = "[";
  for (size_t i = 0; i < v.size(); i++) {
    if (i) s += ",";
    s += std::to_string(v[i]);
  }
  return s + "]";
}

struct ctx {
  std::string name;
  std::vector<dimspec> dims;
  bool smoothed = false, use_counts = true;
  int full_samples = 1, min_samples = 0;
  verif_proxy *px = nullptr;
  std::vector<colvar *> cvs;
  std::shared_ptr<colvar_grid_count> samples;
  std::shared_ptr<colvar_grid_gradient> gradients;
  std::shared_ptr<ip_open> pmf;

  void emit(std::string const &body)
  {
    std::string s = "{\"case\":" + vjson::esc(name) + "," + body;
    if (px && px->err_lines.size()) {
      s += ",\"errs\":[";
      for (size_t i = 0; i < px->err_lines.size() && i < 5; i++) {
        if (i) s += ",";
        s += vjson::esc(px->err_lines[i]);
      }
      s += "]";
      px->err_lines.clear();
    }
    s += ",\"err\":" + std::to_string(px ? cvm::get_error() : 0) + "}";
    puts(s.c_str());
  }

  void destroy()
  {
    pmf.reset();
    gradients.reset();
    samples.reset();
    cvs.clear();
    if (px) {
      delete px;   // ~colvarproxy deletes the module
      px = nullptr;
    }
  }

  std::string colvar_config(size_t first_atom_stride) const
  {
    // colvar d: distanceZ of atom (d+1) from atom (nd+1) along axis d.  With first_atom_stride == 0
    // all variables share atom 1 (values are never computed when the grids are driven directly).
    static char const *axes[3] = {"(1.0, 0.0, 0.0)", "(0.0, 1.0, 0.0)", "(0.0, 0.0, 1.0)"};
    std::string conf;
    size_t const nd = dims.size();
    for (size_t d = 0; d < nd; d++) {
      dimspec const &D = dims[d];
      double const upper = D.lower + D.width * D.n;
      std::ostringstream os;
      os.precision(17);
      os << "colvar {\n  name c" << d << "\n  width " << D.width << "\n  lowerBoundary " << D.lower
         << "\n  upperBoundary " << upper << "\n  distanceZ {\n    main { atomNumbers "
         << (first_atom_stride ? d + 1 : 1) << " }\n    ref { atomNumbers " << (nd + 1) << " }\n    axis "
         << axes[d] << "\n";
      if (D.periodic) {
        os << "    period " << (D.width * D.n) << "\n    wrapAround " << (D.lower + 0.5 * D.width * D.n) << "\n";
      }
      os << "  }\n}\n";
      conf += os.str();
    }
    return conf;
  }

  bool make_module(size_t stride, std::string const &extra_conf,
                   verif_proxy::tf_mode_t tf = verif_proxy::TF_OFF)
  {
    px = new verif_proxy(int(dims.size()) + 1);
    px->tf_mode = tf;   // must be known before a bias requests total forces
    for (auto &a : px->eng) a.mass = 1.0;
    px->colvars = new colvarmodule(px);
    px->colvars->cv_traj_freq = 0;
    px->colvars->restart_out_freq = 0;
    int const rc = px->colvars->read_config_string(colvar_config(stride) + extra_conf);
    cvs.clear();
    for (size_t d = 0; d < dims.size(); d++) {
      colvar *c = cvm::colvar_by_name("c" + std::to_string(d));
      if (!c) {
        emit("\"ev\":\"fail\",\"what\":\"colvar not defined\",\"rc\":" + std::to_string(rc));
        return false;
      }
      cvs.push_back(c);
    }
    return rc == COLVARS_OK && cvm::get_error() == COLVARS_OK;
  }

  std::string shape_json(colvar_grid_gradient *g, integrate_potential *p)
  {
    std::vector<int> per;
    std::vector<double> lower;
    for (size_t d = 0; d < dims.size(); d++) {
      per.push_back(p->periodic[d] ? 1 : 0);
      lower.push_back(p->lower_boundaries[d].real_value);
    }
    std::vector<int> gper;
    for (size_t d = 0; d < dims.size(); d++) gper.push_back(g->periodic[d] ? 1 : 0);
    return "\"gnx\":" + jints(g->number_of_points_vec()) + ",\"pnx\":" + jints(p->number_of_points_vec()) +
           ",\"periodic\":" + jints(per) + ",\"gperiodic\":" + jints(gper) + ",\"widths\":" + jarr(p->widths) +
           ",\"plower\":" + jarr(lower);
  }

  bool build()
  {
    if (!make_module(0, "")) {
      emit("\"ev\":\"fail\",\"what\":\"config\"");
      return false;
    }
    samples.reset(new colvar_grid_count(cvs, std::string()));
    if (use_counts) {
      gradients.reset(new colvar_grid_gradient(cvs, samples));
    } else {
      // as ABF's czar_gradients: no count grid, sizes taken from a template
      gradients.reset(new colvar_grid_gradient(cvs, nullptr, samples));
    }
    gradients->full_samples = full_samples;
    gradients->min_samples = min_samples;
    pmf.reset(new ip_open(cvs, gradients));
    pmf->b_smoothed = smoothed;
    emit("\"ev\":\"built\"," + shape_json(gradients.get(), pmf.get()));
    return true;
  }

  void read_index(std::vector<int> &ix)
  {
    ix.resize(dims.size());
    for (size_t d = 0; d < dims.size(); d++) ix[d] = int(nexti());
  }

  void dump_grad(colvar_grid_gradient *g, colvar_grid_count *c, std::string const &tag)
  {
    std::vector<cvm::real> gd;
    g->raw_data_out(gd);
    std::string s = "\"ev\":\"grad\",\"tag\":" + vjson::esc(tag) + ",\"sums\":" + jarr(gd);
    if (c) {
      std::vector<size_t> cd;
      c->raw_data_out(cd);
      s += ",\"counts\":" + jarr(cd);
    }
    emit(s);
  }

  void run_e2e(int fs, std::string const &tfmode, long nsteps)
  {
    std::ostringstream os;
    os << "abf {\n  name abf1\n  colvars";
    for (size_t d = 0; d < dims.size(); d++) os << " c" << d;
    os << "\n  fullSamples " << fs << "\n  integrate on\n  outputFreq 0\n}\n";
    bool const ok = make_module(1, os.str(), tfmode == "prev" ? verif_proxy::TF_PREV : verif_proxy::TF_SAME);
    colvarbias *b = ok ? cvm::bias_by_name("abf1") : nullptr;
    colvarbias_abf *abf = b ? dynamic_cast<colvarbias_abf *>(b) : nullptr;
    size_t const nd = dims.size();
    if (!abf) {
      // consume the step lines
      for (long i = 0; i < nsteps * long(2 * nd); i++) nextd();
      emit("\"ev\":\"fail\",\"what\":\"abf not defined\"");
      return;
    }
    px->set_output_prefix("");
    int rc = px->engine_init();
    long nerr = 0;
    for (long s = 0; s < nsteps; s++) {
      for (size_t d = 0; d < nd; d++) {
        cvm::rvector x(0.0, 0.0, 0.0);
        x[int(d)] = nextd();
        px->eng[d].x = x;
      }
      px->eng[nd].x = cvm::rvector(0.0, 0.0, 0.0);
      for (size_t d = 0; d < nd; d++) {
        cvm::rvector f(0.0, 0.0, 0.0);
        f[int(d)] = nextd();
        px->eng[d].fext = f;
      }
      rc = px->engine_step(true, false);
      if (rc != COLVARS_OK || cvm::get_error()) nerr++;
    }
    colvar_grid_gradient *g = colvars_verif_access::abf_gradients(abf);
    colvar_grid_count *c = colvars_verif_access::abf_samples(abf);
    integrate_potential *p = colvars_verif_access::abf_pmf(abf);
    if (!g || !c || !p) {
      emit("\"ev\":\"fail\",\"what\":\"abf grids missing\"");
      return;
    }
    emit("\"ev\":\"built\"," + shape_json(g, p) + ",\"step_errors\":" + std::to_string(nerr) +
         ",\"full_samples\":" + std::to_string(g->full_samples) + ",\"min_samples\":" +
         std::to_string(g->min_samples) + ",\"b_smoothed\":" + std::to_string(p->b_smoothed ? 1 : 0));
    dump_grad(g, c, "e2e");
    emit("\"ev\":\"div\",\"tag\":\"incr\",\"div\":" + jarr(colvars_verif_access::divergence(p)));
    // batch: copy of the final gradients into fresh grids, set_div()
    samples.reset(new colvar_grid_count(cvs, std::string()));
    gradients.reset(new colvar_grid_gradient(cvs, samples));
    gradients->full_samples = g->full_samples;
    gradients->min_samples = g->min_samples;
    samples->copy_grid(*c);
    gradients->copy_grid(*g);
    pmf.reset(new ip_open(cvs, gradients));
    pmf->b_smoothed = p->b_smoothed;
    pmf->set_div();
    emit("\"ev\":\"div\",\"tag\":\"batch\",\"div\":" + jarr(colvars_verif_access::divergence(pmf.get())));
    // the surface ABF itself would write now, and the one from the batch divergence
    cvm::real err = -1.0;
    int const it1 = p->integrate(20000, 1e-10, err, false);
    emit("\"ev\":\"integrate\",\"tag\":\"incr\",\"iter\":" + std::to_string(it1) + ",\"itmax\":20000,\"tol\":1e-10,\"errv\":" +
         jnum(err) + ",\"data\":" + jarr(p->data));
    err = -1.0;
    int const it2 = pmf->integrate(20000, 1e-10, err, false);
    emit("\"ev\":\"integrate\",\"tag\":\"batch\",\"iter\":" + std::to_string(it2) + ",\"itmax\":20000,\"tol\":1e-10,\"errv\":" +
         jnum(err) + ",\"data\":" + jarr(pmf->data));
  }
};


int run_file(char const *path)
{
  std::ifstream in(path);
  if (!in) {
    fprintf(stderr, "h_poisson: cannot open %s\n", path);
    return 2;
  }
  {
    std::string w;
    while (in >> w) tok.push_back(w);
  }
  ctx C;
  bool built = false;
  while (have()) {
    std::string const c = next();
    if (c == "case") {
      C.destroy();
      C = ctx();
      C.name = next();
      built = false;
    } else if (c == "grid") {
      long const nd = nexti();
      C.dims.clear();
      for (long d = 0; d < nd; d++) {
        dimspec D;
        D.lower = nextd();
        D.width = nextd();
        D.n = int(nexti());
        D.periodic = nexti() != 0;
        C.dims.push_back(D);
      }
    } else if (c == "params") {
      C.smoothed = nexti() != 0;
      C.full_samples = int(nexti());
      C.min_samples = int(nexti());
      C.use_counts = nexti() != 0;
    } else if (c == "build") {
      built = C.build();
    } else if (c == "load" || c == "acc" || c == "accnodiv") {
      long const n = nexti();
      size_t const nd = C.dims.size();
      std::vector<int> ix;
      std::vector<cvm::real> f(nd);
      long done = 0;
      for (long i = 0; i < n; i++) {
        C.read_index(ix);
        long cnt = 0;
        if (c == "load") cnt = nexti();
        for (size_t d = 0; d < nd; d++) f[d] = nextd();
        if (!built) continue;
        if (!C.gradients->index_ok(ix)) continue;
        if (c == "load") {
          if (C.use_counts) C.samples->set_value(ix, size_t(cnt));
          for (size_t d = 0; d < nd; d++) C.gradients->set_value(ix, f[d], d);
        } else {
          C.gradients->acc_force(ix, f.data());
          if (c == "acc") C.pmf->update_div_neighbors(ix);
        }
        done++;
      }
      C.emit("\"ev\":\"" + c + "\",\"n\":" + std::to_string(done));
    } else if (c == "loadbin") {
      std::string const path = next();
      if (built) {
        size_t const nb = C.samples->raw_data_num();
        size_t const nd = C.dims.size();
        std::vector<long long> cnt(nb);
        std::vector<double> sm(nb * nd);
        FILE *f = fopen(path.c_str(), "rb");
        bool ok = f != nullptr;
        if (ok) ok = fread(cnt.data(), sizeof(long long), nb, f) == nb;
        if (ok) ok = fread(sm.data(), sizeof(double), nb * nd, f) == nb * nd;
        if (f) fclose(f);
        if (ok && C.gradients->raw_data_num() == nb * nd) {
          if (C.use_counts) {
            for (size_t i = 0; i < nb; i++) C.samples->set_value(i, size_t(cnt[i]));
          }
          C.gradients->raw_data_in(sm.data());
          C.emit("\"ev\":\"loadbin\",\"n\":" + std::to_string(nb));
        } else {
          C.emit("\"ev\":\"fail\",\"what\":\"loadbin\"");
        }
      }
    } else if (c == "setdiv") {
      if (built) C.pmf->set_div();
    } else if (c == "div") {
      std::string const tag = next();
      if (built) C.emit("\"ev\":\"div\",\"tag\":" + vjson::esc(tag) + ",\"div\":" +
                        jarr(colvars_verif_access::divergence(C.pmf.get())));
    } else if (c == "grad") {
      std::string const tag = next();
      if (built) C.dump_grad(C.gradients.get(), C.use_counts ? C.samples.get() : nullptr, tag);
    } else if (c == "zero") {
      if (built) C.pmf->reset(0.0);
    } else if (c == "integrate") {
      int const itmax = int(nexti());
      double const tol = nextd();
      std::string const tag = next();
      if (built) {
        cvm::real err = -1.0;   // left untouched by the library when the right-hand side is zero
        int const iter = C.pmf->integrate(itmax, tol, err, false);
        C.emit("\"ev\":\"integrate\",\"tag\":" + vjson::esc(tag) + ",\"iter\":" + std::to_string(iter) +
               ",\"itmax\":" + std::to_string(itmax) + ",\"tol\":" + jnum(tol) + ",\"errv\":" + jnum(err) +
               ",\"data\":" + jarr(C.pmf->data));
      }
    } else if (c == "atimes") {
      std::string const tag = next();
      if (built && C.dims.size() > 1) {
        std::vector<cvm::real> la(C.pmf->data.size(), 0.0);
        C.pmf->apply_L(C.pmf->data, la);
        C.emit("\"ev\":\"atimes\",\"tag\":" + vjson::esc(tag) + ",\"la\":" + jarr(la));
      }
    } else if (c == "minzero") {
      if (built) C.pmf->set_zero_minimum();
    } else if (c == "pmf") {
      std::string const tag = next();
      if (built) C.emit("\"ev\":\"pmf\",\"tag\":" + vjson::esc(tag) + ",\"data\":" + jarr(C.pmf->data));
    } else if (c == "multicol") {
      std::string const tag = next();
      if (built) {
        std::ostringstream os;
        C.pmf->write_multicol(os);
        C.emit("\"ev\":\"multicol\",\"tag\":" + vjson::esc(tag) + ",\"text\":" + vjson::esc(os.str()));
      }
    } else if (c == "ti1d") {
      std::string const tag = next();
      if (built) {
        std::ostringstream os;
        C.gradients->write_1D_integral(os);
        C.emit("\"ev\":\"ti1d\",\"tag\":" + vjson::esc(tag) + ",\"text\":" + vjson::esc(os.str()));
      }
    } else if (c == "e2e") {
      int const fs = int(nexti());
      std::string const tfmode = next();
      long const nsteps = nexti();
      C.run_e2e(fs, tfmode, nsteps);
    } else if (c == "end") {
      C.emit("\"ev\":\"end\"");
      C.destroy();
      built = false;
    } else {
      fprintf(stderr, "h_poisson: unknown command '%s'\n", c.c_str());
      return 2;
    }
  }
  C.destroy();
  puts("{\"ev\":\"done\"}");
  return 0;
}

} // namespace


int main(int argc, char **argv)
{
  if (argc < 2) {
    fprintf(stderr, "usage: h_poisson <case file>\n");
    return 2;
  }
  int rc = 0;
  try {
    rc = run_file(argv[1]);
  } catch (std::exception const &e) {
    printf("{\"ev\":\"exception\",\"what\":%s}\n", vjson::esc(e.what()).c_str());
    rc = 3;
  }
  fflush(stdout);
  return rc;
}
